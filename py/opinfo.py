# Facts about the running interpreter used as the oracle of C16 (and by C14).
import dis, sys, importlib.util, re, os


def info(_args=None):
    hasj = sorted(set(dis.hasjrel) | set(dis.hasjabs))
    return {
        "version": "%d.%d" % sys.version_info[:2],
        "opmap": dict(dis.opmap),
        "hasjrel": sorted(dis.hasjrel),
        "hasjabs": sorted(dis.hasjabs),
        "hasjump": hasj,
        "magic_bytes": list(importlib.util.MAGIC_NUMBER),
        "magic": int.from_bytes(importlib.util.MAGIC_NUMBER[:2], "little"),
    }


def magic_history(_args=None):
    """(magic, 'major.minor') pairs from the comment table in importlib/_bootstrap_external.py"""
    import importlib._bootstrap_external as be
    path = os.path.join(os.path.dirname(importlib.__file__), "_bootstrap_external.py")
    out = []
    with open(path, "r", encoding="utf-8") as f:
        for line in f:
            m = re.match(r"#\s+Python (\d+)\.(\d+)\S*\s+(\d{4,5})\b", line)
            if m:
                out.append([int(m.group(3)), "%s.%s" % (m.group(1), m.group(2))])
    return out
