# C25 — REPL framing: the Python server's MessageStream (extracted from the working tree's
# src/scripts/repl_server.py) against a reference encoder/decoder, over a fake socket whose
# recv/send transfer generated chunk sizes; then the Rust client's framing through the
# `vcheck C25rs` driver.  Hypothesis, python3-vt.
import sys, os, json, subprocess
sys.path.insert(0, os.path.dirname(os.path.abspath(__file__)))
import pyengine
from hypothesis import given, settings, strategies as st, seed as hseed, HealthCheck, Phase, find


def load_message_stream():
    src = open(os.path.join(pyengine.REPO, "src/scripts/repl_server.py"), encoding="utf-8").read()
    a = src.index("class MessageStream")
    b = src.index("server_socket = socket.socket()")
    ns = {}
    exec("import socket\n" + src[a:b], ns)
    return ns["MessageStream"]


MessageStream = load_message_stream()


class FakeSocket:
    """recv(n) returns between 1 and n bytes according to `chunks`; send() may be partial."""

    def __init__(self, incoming, chunks, partial_send):
        self.incoming = bytearray(incoming)
        self.chunks = list(chunks)
        self.sent = bytearray()
        self.partial_send = partial_send
        self.k = 0

    def _next(self, n):
        if not self.chunks:
            return n
        c = self.chunks[self.k % len(self.chunks)]
        self.k += 1
        return max(1, min(n, c))

    def recv(self, n):
        if n <= 0 or not self.incoming:
            return b""
        m = self._next(n)
        out = bytes(self.incoming[:m])
        del self.incoming[:m]
        return out

    def send(self, data):
        m = self._next(len(data)) if self.partial_send else len(data)
        self.sent.extend(data[:m])
        return m

    def sendall(self, data):
        self.sent.extend(data)

    def close(self):
        pass


def ref_encode(inst, text):
    b = text.encode("utf-8")
    return bytes([inst]) + len(b).to_bytes(2, "big") + b


texts = st.one_of(
    st.text(alphabet=st.characters(blacklist_categories=("Cs",)), max_size=40),
    st.text(alphabet=st.characters(min_codepoint=32, max_codepoint=0x1F600, blacklist_categories=("Cs",)), max_size=300),
    st.integers(0, 70000).map(lambda n: "x" * n),
    st.sampled_from([65535, 65534, 65536, 100000, 200000]).map(lambda n: "y" * n),
)
msg = st.tuples(st.integers(0, 6), texts)
case_s = st.fixed_dictionaries({
    "msgs": st.lists(msg, min_size=1, max_size=5),
    "chunks": st.lists(st.integers(1, 70000), min_size=0, max_size=6) | st.lists(st.integers(1, 3), min_size=1, max_size=4),
    "partial_send": st.booleans(),
})


def evaluate(c):
    """-> (sig or None, detail, nontrivial, classes)"""
    msgs = [(i, t) for i, t in c["msgs"]]
    big = any(len(t.encode("utf-8")) > 65535 for _, t in msgs)
    cls = ["payload>65535" if big else "payload<=65535", "chunked" if c["chunks"] else "unchunked", "partial-send" if c["partial_send"] else "full-send"]
    split_header = any(x < 3 for x in c["chunks"])
    # receiving: frames written by the reference encoder (what the Rust client writes for payloads that fit)
    if not big:
        wire = b"".join(ref_encode(i, t) for i, t in msgs)
        s = MessageStream(FakeSocket(wire, c["chunks"], False))
        for k, (i, t) in enumerate(msgs):
            try:
                got = s.recv_msg()
            except Exception as e:
                return "server recv_msg raises %s on a well-formed stream" % type(e).__name__, {"message_index": k, "error": str(e)[:200]}, True, cls
            if got != (i, t):
                return "server recv_msg decodes a different message than was sent", {"message_index": k, "sent": [i, t[:60], len(t)], "got": [got[0], got[1][:60], len(got[1])]}, True, cls
    # sending
    fs = FakeSocket(b"", c["chunks"], c["partial_send"])
    s = MessageStream(fs)
    for k, (i, t) in enumerate(msgs):
        n = len(t.encode("utf-8"))
        try:
            s.send_msg(i, t)
        except OverflowError as e:
            if n > 65535:
                return "server send_msg cannot frame a payload longer than 65535 bytes (OverflowError)", {"message_index": k, "payload_bytes": n}, True, cls
            return "server send_msg raises OverflowError", {"message_index": k, "payload_bytes": n, "error": str(e)}, True, cls
        except Exception as e:
            return "server send_msg raises %s" % type(e).__name__, {"message_index": k, "error": str(e)[:200]}, True, cls
    want = b"".join(ref_encode(i, t) for i, t in msgs) if not big else None
    if want is not None and bytes(fs.sent) != want:
        return "server send_msg writes different bytes than the frame format", {"sent_len": len(fs.sent), "expected_len": len(want)}, True, cls
    return None, None, big or split_header, cls


def run_rust(argv):
    exe = os.path.join(pyengine.ROOT, "target", "release", "vcheck")
    env = dict(os.environ, VERIF_ROOT=pyengine.ROOT, VERIF_EVIDENCE_AS="C25rs")
    p = subprocess.run([exe, "C25rs"] + argv, env=env, stdout=subprocess.PIPE, stderr=subprocess.PIPE, text=True)
    sys.stderr.write("".join(l + "\n" for l in p.stderr.splitlines() if not l.startswith("Warning: length truncated"))[-3000:])
    return p.returncode, p.stdout


def main():
    argv = sys.argv[1:]
    t = pyengine.tier(argv)
    run = pyengine.Run(
        "C25", t,
        "(server, Python) sequences of 1-5 messages (instruction 0-6, payload text of 0-200 000 bytes incl. multi-byte characters and the sizes 65534/65535/65536) through the MessageStream class extracted from the working tree's repl_server.py over a fake socket whose recv(n) returns generated chunk sizes (down to 1 byte, i.e. splits inside the 3-byte header) and whose send may be partial: recv_msg must return exactly the messages the reference encoder framed, send_msg must write exactly the reference frames. (client, Rust, via the verif hook) the same message sequences written by MessageStream::send_msg and read back by recv_msg through a reader that returns generated chunk sizes: the decoded sequence must equal the sent one. Non-trivial = a payload above 65 535 bytes or a read split inside a header; distinct by case",
        ["end-to-end REPL histories through DummyVM are not driven by this check (its error paths call process::exit); framing is checked on both sides separately"],
    )
    rp = pyengine.replay_arg(argv)
    if rp:
        d = json.load(open(rp))
        if d["case"].get("rust"):
            rc, out = run_rust(["--replay", rp] + (["--strict"] if "--strict" in argv else []))
            sys.stdout.write(out)
            return rc
        sig, detail, _, _ = evaluate(d["case"])
        print("replay %s -> %s" % (rp, sig))
        if sig is None:
            return 0
        if sig in run.known_sigs and "--strict" not in argv:
            print("KNOWN-FINDING: property=C25 %s" % run.known_sigs[sig]["what"])
            return 0
        print("VIOLATION property=C25 replay=%s" % rp)
        return 1
    n = {"quick": 1500, "thorough": 40000}[t]
    if os.environ.get("VERIF_CASES"):
        n = int(os.environ["VERIF_CASES"])
    failures = {}

    @hseed(pyengine.seed())
    @settings(max_examples=n, database=None, deadline=None, suppress_health_check=list(HealthCheck), phases=[Phase.generate])
    @given(case_s)
    def prop(c):
        sig, detail, nt, cls = evaluate(c)
        if sig is None:
            slim = {"msgs": [[i, t[:40], len(t)] for i, t in c["msgs"]], "chunks": c["chunks"], "partial_send": c["partial_send"]}
            run.passed(slim, nt, cls)
        else:
            failures.setdefault(sig, (c, detail))
            run.evaluations += 1
            for x in cls:
                run.count(x)

    prop()
    import random
    for sig, (c, detail) in sorted(failures.items()):
        try:
            small = find(case_s, lambda x: evaluate(x)[0] == sig, settings=settings(max_examples=2000, database=None, deadline=None, suppress_health_check=list(HealthCheck)), random=random.Random(pyengine.seed()))
            c, detail = small, evaluate(small)[1]
        except Exception:
            pass
        run.evaluations -= 1
        c = {"msgs": [[i, t] for i, t in c["msgs"]], "chunks": c["chunks"], "partial_send": c["partial_send"]}
        run.failed(sig, c, detail)

    def replay_known(case):
        if case.get("rust"):
            return None  # replayed by the Rust driver below
        case = dict(case, msgs=[(i, t) for i, t in case["msgs"]])
        return evaluate(case)[0]

    rc_py = run.finish(replay_known)
    # Rust client side: its own engine run writes evidence/C25rs.json and prints its lines
    rc_rs, out = run_rust(["--tier", t])
    sys.stdout.write(out)
    try:
        ev = json.load(open(os.path.join(pyengine.ROOT, "evidence", "C25.json")))
        rs = json.load(open(os.path.join(pyengine.ROOT, "evidence", "C25rs.json")))
        ev["coverage"]["client_side_rust"] = rs["coverage"]
        ev["coverage"]["evaluations"] += rs["coverage"]["evaluations"]
        ev["coverage"]["distinct_nontrivial"] += rs["coverage"]["distinct_nontrivial"]
        ev["violations"] += rs.get("violations", 0)
        json.dump(ev, open(os.path.join(pyengine.ROOT, "evidence", "C25.json"), "w"), indent=1)
        os.remove(os.path.join(pyengine.ROOT, "evidence", "C25rs.json"))
    except Exception as e:
        sys.stderr.write("could not merge the Rust-side evidence: %r\n" % (e,))
        return 2
    return max(rc_py, rc_rs)


if __name__ == "__main__":
    sys.exit(main())
