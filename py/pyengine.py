# Shared plumbing of the Python-side checks (C25, C26): known findings, evidence, replay
# files, exit codes.  Mirrors harness/vkit/src/engine.rs.
import json, os, sys, time, hashlib

ROOT = os.environ.get("VERIF_ROOT", os.path.dirname(os.path.dirname(os.path.abspath(__file__))))
REPO = os.environ.get("VERIF_REPO", "/repo")


def seed():
    try:
        s = int(os.environ.get("VERIF_SEED", "0"))
    except ValueError:
        s = 0
    return s if s != 0 else 0x5EEDC0DE


def tier(argv):
    t = os.environ.get("VERIF_TIER", "quick")
    if "--tier" in argv:
        t = argv[argv.index("--tier") + 1]
    return "thorough" if t == "thorough" else "quick"


def replay_arg(argv):
    if "--replay" in argv:
        p = argv[argv.index("--replay") + 1]
        return p if os.path.isabs(p) else os.path.join(ROOT, p)
    return None


def known(pid):
    try:
        k = json.load(open(os.path.join(ROOT, "known_findings.json")))
    except Exception:
        return []
    return [f for f in k.get("findings", []) if f.get("property") == pid]


class Run:
    def __init__(self, pid, tier_name, rule, assumptions=()):
        self.pid, self.tier, self.rule, self.assumptions = pid, tier_name, rule, list(assumptions)
        self.t0 = time.time()
        self.evaluations = 0
        self.nontrivial = set()
        self.classes = {}
        self.samples = []
        self.known_hits = {}
        self.violations = []  # (sig, replay path)
        self.seen = set()
        self.discarded = 0
        self.inconclusive = 0
        self.findings = known(pid)
        self.known_sigs = {f["signature"]: f for f in self.findings if f.get("status") == "known"}

    def count(self, cls, n=1):
        self.classes[cls] = self.classes.get(cls, 0) + n

    def passed(self, case, nontrivial, classes=()):
        self.evaluations += 1
        for c in classes:
            self.count(c)
        if nontrivial:
            h = hashlib.sha1(json.dumps(case, sort_keys=True, default=str).encode()).hexdigest()
            if h not in self.nontrivial:
                self.nontrivial.add(h)
                if len(self.samples) < 6:
                    self.samples.append(case)

    def failed(self, sig, case, detail, note="shrunk failing case"):
        """returns True if the failure is a listed known finding (search continues)"""
        self.evaluations += 1
        if sig in self.known_sigs:
            self.known_hits[sig] = self.known_hits.get(sig, 0) + 1
            return True
        if sig in self.seen:
            return False
        self.seen.add(sig)
        d = os.path.join(ROOT, "replays", self.pid)
        os.makedirs(d, exist_ok=True)
        h = hashlib.sha1(json.dumps(case, sort_keys=True, default=str).encode()).hexdigest()[:16]
        path = os.path.join(d, "viol-%s.json" % h)
        json.dump({"property": self.pid, "signature": sig, "case": case, "detail": detail, "seed": seed(), "note": note}, open(path, "w"), indent=1, default=str)
        sys.stderr.write("violation: sig=%s detail=%s\n" % (sig, json.dumps(detail, default=str)[:600]))
        self.violations.append((sig, path))
        return False

    def finish(self, replay_known):
        """replay_known(case) -> (sig or None): re-executes pinned replays of listed findings"""
        lines = []
        for f in self.findings:
            rp = f.get("replay")
            if not rp:
                continue
            try:
                d = json.load(open(os.path.join(ROOT, rp)))
            except Exception as e:
                sys.stderr.write("known_findings replay unreadable: %s: %s\n" % (rp, e))
                return 2
            sig = replay_known(d["case"])
            self.evaluations += 1
            if sig is None:
                continue
            if f["status"] == "known" and sig == f["signature"]:
                lines.append("KNOWN-FINDING: property=%s %s" % (self.pid, f["what"]))
                self.known_hits[sig] = self.known_hits.get(sig, 0) + 1
            elif sig in self.known_sigs and sig != f["signature"]:
                self.known_hits[sig] = self.known_hits.get(sig, 0) + 1
            else:
                self.failed(sig, d["case"], {"note": "pinned replay fails"}, note="regression of %s entry %r" % (f["status"], f["signature"]))
        wall = time.time() - self.t0
        cov = {
            "evaluations": self.evaluations,
            "distinct_nontrivial": len(self.nontrivial),
            "rule": self.rule,
            "samples": self.samples or ["<no non-trivial passing case in this run>"],
            "classes": self.classes,
            "discarded": self.discarded,
            "inconclusive": self.inconclusive,
            "known_hits": self.known_hits,
            "exhaustive": False,
        }
        ev = {"property_id": self.pid, "tier": self.tier, "seed": seed(), "level": "exploration", "coverage": cov, "assumptions": self.assumptions, "wall_s": wall, "violations": len(self.violations)}
        os.makedirs(os.path.join(ROOT, "evidence"), exist_ok=True)
        json.dump(ev, open(os.path.join(ROOT, "evidence", self.pid + ".json"), "w"), indent=1, default=str)
        print("%s: tier=%s seed=%d evaluations=%d distinct_nontrivial=%d known_hits=%d wall=%.1fs" % (self.pid, self.tier, seed(), self.evaluations, len(self.nontrivial), sum(self.known_hits.values()), wall))
        for l in lines:
            print(l)
        for sig, path in self.violations:
            print("VIOLATION property=%s replay=%s" % (self.pid, path))
        return 1 if self.violations else 0
