# C26 — runtime classes agree with Python and with their declared types.
# Hypothesis suite run under python3-vt; the classes are imported from the working tree.
import sys, os, json, math, operator
sys.path.insert(0, os.path.dirname(os.path.abspath(__file__)))
import pyengine
sys.path.insert(0, os.path.join(pyengine.REPO, "crates/erg_compiler/lib/core"))
from hypothesis import given, settings, strategies as st, seed as hseed, HealthCheck, Phase
from _erg_nat import Nat, NatMut
from _erg_int import Int, IntMut
from _erg_float import Float, FloatMut
from _erg_str import Str, StrMut
from _erg_bool import Bool
from _erg_list import List

BIN = {
    "+": operator.add, "-": operator.sub, "*": operator.mul, "/": operator.truediv, "//": operator.floordiv, "%": operator.mod,
    "**": operator.pow, "==": operator.eq, "!=": operator.ne, "<": operator.lt, "<=": operator.le, ">": operator.gt, ">=": operator.ge,
}
UN = {"neg": operator.neg, "pos": operator.pos, "abs": abs}

WRAP = {"Nat": Nat, "Int": Int, "Float": Float, "Str": Str, "Bool": Bool, "NatMut": lambda v: NatMut(Nat(v)), "IntMut": IntMut, "FloatMut": FloatMut, "plain": lambda v: v}


def plain(x):
    """the builtin value a wrapper (or result) stands for"""
    if hasattr(x, "value") and type(x).__name__.endswith("Mut"):
        x = x.value
    if isinstance(x, bool):
        return bool(x)
    if isinstance(x, int):
        return int(x)
    if isinstance(x, float):
        return float(x)
    if isinstance(x, str):
        return str(x)
    if isinstance(x, (list, tuple)):
        return [plain(e) for e in x]
    return x


def same(a, b):
    if isinstance(a, float) and isinstance(b, float):
        return (math.isnan(a) and math.isnan(b)) or (a == b and math.copysign(1, a) == math.copysign(1, b))
    return type(a) == type(b) and a == b


big = st.one_of(st.integers(-20, 20), st.integers(-(2**70), 2**70), st.sampled_from([0, 1, -1, 2**31 - 1, 2**31, -(2**31), 2**63, 2**64 - 1]))
nats = big.map(abs)
floats = st.one_of(st.floats(allow_nan=True, allow_infinity=True), st.sampled_from([0.0, -0.0, 0.5, -1.5, 1e308, 5e-324]))
strs = st.text(max_size=6)
small = st.integers(0, 6)

VALS = {"Nat": nats, "Int": big, "Float": floats, "Str": strs, "Bool": st.booleans(), "NatMut": nats, "IntMut": big, "FloatMut": floats}
NUM = ["Nat", "Int", "Float", "Bool", "NatMut", "IntMut", "FloatMut"]


DUNDER = {"+": "__add__", "-": "__sub__", "*": "__mul__", "/": "__truediv__", "//": "__floordiv__", "%": "__mod__", "**": "__pow__",
          "==": "__eq__", "!=": "__ne__", "<": "__lt__", "<=": "__le__", ">": "__gt__", ">=": "__ge__"}
IMM = ["Nat", "Int", "Float", "Bool"]
MUT_PARTNERS = {"NatMut": ["Nat", "plain-nat"], "IntMut": ["Int", "Nat", "plain-int"], "FloatMut": ["Float", "plain-float"]}


@st.composite
def num_case(draw):
    if draw(st.integers(0, 3)) > 0:
        lc = draw(st.sampled_from(IMM))
        rc = draw(st.sampled_from(IMM + ["plain-int", "plain-float"]))
    else:
        # a mutable wrapper with an operand of its own kind, and only operations its class declares
        lc = draw(st.sampled_from(sorted(MUT_PARTNERS)))
        rc = draw(st.sampled_from(MUT_PARTNERS[lc]))
    op = draw(st.sampled_from(sorted(BIN)))
    lv = draw(VALS[lc])
    if rc == "plain-int":
        rv = draw(big)
    elif rc == "plain-nat":
        rv = draw(nats)
    elif rc == "plain-float":
        rv = draw(floats)
    else:
        rv = draw(VALS[rc])
    if op == "**":
        rv = draw(small) if not isinstance(rv, float) else float(draw(small))
        if isinstance(lv, int) and abs(lv) > 2**20:
            lv = lv % 1000
    return {"kind": "bin", "lc": lc, "rc": rc, "op": op, "lv": lv, "rv": rv}


@st.composite
def un_case(draw):
    lc = draw(st.sampled_from(["Nat", "Int", "Float", "Bool"]))
    op = draw(st.sampled_from(sorted(UN) + ["succ", "pred"]))
    if op in ("succ", "pred") and lc in ("Float", "Bool"):
        lc = "Int"
    return {"kind": "un", "lc": lc, "op": op, "lv": draw(VALS[lc])}


@st.composite
def str_case(draw):
    op = draw(st.sampled_from(["+", "*", "==", "!=", "<", "upper", "lower", "len", "getitem", "contains", "%"]))
    c = {"kind": "str", "op": op, "lv": draw(strs), "wrap_r": draw(st.booleans())}
    if op in ("+", "==", "!=", "<", "contains"):
        c["rv"] = draw(strs)
    elif op == "*":
        c["rv"] = draw(st.integers(-2, 5))
    elif op == "getitem":
        c["rv"] = draw(st.integers(-8, 8))
    elif op == "%":
        c["rv"] = draw(st.one_of(strs, st.integers(-5, 5)))
    return c


@st.composite
def list_case(draw):
    op = draw(st.sampled_from(["+", "*", "==", "len", "getitem", "in", "sum", "reversed", "get"]))
    c = {"kind": "list", "op": op, "lv": draw(st.lists(st.integers(-5, 5), max_size=5))}
    if op in ("+", "=="):
        c["rv"] = draw(st.lists(st.integers(-5, 5), max_size=4))
    elif op in ("*",):
        c["rv"] = draw(st.integers(-1, 4))
    elif op in ("getitem", "get"):
        c["rv"] = draw(st.integers(-7, 7))
    elif op == "in":
        c["rv"] = draw(st.integers(-5, 5))
    return c


def wrap(cls, v):
    if cls.startswith("plain"):
        return v
    return WRAP[cls](v)


def outcome(f):
    try:
        return ("value", f())
    except Exception as e:  # noqa
        return ("raises", type(e).__name__)


def evaluate(c):
    """-> (sig or None, detail, nontrivial, classes)"""
    k = c["kind"]
    if k == "bin":
        lc, rc, op = c["lc"], c["rc"], c["op"]
        if lc.startswith("Nat") and c["lv"] < 0 or rc.startswith("Nat") and isinstance(c["rv"], int) and c["rv"] < 0:
            return None, None, False, ["discard:negative-nat-operand"]
        if lc.endswith("Mut"):
            probe = wrap(lc, 1 if lc != "FloatMut" else 1.0)
            if DUNDER[op] not in type(probe).__dict__:
                return None, None, False, ["discard:operation-not-declared-by-the-mutable-class"]
        want = outcome(lambda: BIN[op](c["lv"], c["rv"]))
        got = outcome(lambda: BIN[op](wrap(lc, c["lv"]), wrap(rc, c["rv"])))
        name = "%s %s %s" % (lc, op, rc)
        nt = (lc != rc) or (isinstance(c["lv"], (int, float)) and isinstance(c["rv"], (int, float)) and (c["lv"] < 0) != (c["rv"] < 0))
        cls = ["bin:%s" % op, "left:%s" % lc, "right:%s" % rc]
        if want[0] == "raises":
            if got != want:
                return "%s: Python raises %s, the wrapper %s" % (name, want[1], "raises " + got[1] if got[0] == "raises" else "returns a value"), {"case": c, "got": repr(got)}, nt, cls
            return None, None, nt, cls + ["path:exception"]
        if got[0] == "raises":
            return "%s raises %s where Python computes a value" % (name, got[1]), {"case": c, "expected": repr(want[1])}, nt, cls
        g = got[1]
        if not same(plain(g), want[1]):
            return "%s computes a different value than Python" % name, {"case": c, "got": repr(plain(g)), "expected": repr(want[1])}, nt, cls
        # class invariants
        if isinstance(g, Nat) and int(g) < 0:
            return "%s returns a negative Nat" % name, {"case": c, "got": repr(g)}, nt, cls
        both_nat = lc in ("Nat", "Bool") and rc in ("Nat", "Bool")
        if lc == "Nat" and rc == "Nat" and op in ("+", "*") and not isinstance(g, Nat):
            return "Nat %s Nat does not stay Nat" % op, {"case": c, "got_type": type(g).__name__}, nt, cls
        if lc == "Nat" and rc == "Int" and op in ("+", "-", "*") and not isinstance(g, Int):
            return "Nat %s Int is not an Int instance" % op, {"case": c, "got_type": type(g).__name__}, nt, cls
        if lc == "Int" and rc in ("Int", "Nat") and op in ("+", "-", "*", "//", "**") and isinstance(want[1], int) and not isinstance(g, Int):
            return "Int %s %s is not an Int instance" % (op, rc), {"case": c, "got_type": type(g).__name__}, nt, cls
        if lc == "Float" and rc in ("Float", "Int", "Nat") and op in ("+", "-", "*", "/") and not isinstance(g, Float):
            return "Float %s %s is not a Float instance" % (op, rc), {"case": c, "got_type": type(g).__name__}, nt, cls
        _ = both_nat
        return None, None, nt, cls
    if k == "un":
        lc, op = c["lc"], c["op"]
        if lc == "Nat" and c["lv"] < 0:
            return None, None, False, ["discard:negative-nat-operand"]
        if op in ("succ", "pred"):
            want = ("value", c["lv"] + (1 if op == "succ" else -1))
            got = outcome(lambda: getattr(wrap(lc, c["lv"]), op)())
        else:
            want = outcome(lambda: UN[op](c["lv"]))
            got = outcome(lambda: UN[op](wrap(lc, c["lv"])))
        name = "%s.%s" % (lc, op)
        cls = ["un:%s" % op, "left:%s" % lc]
        if got[0] == "raises" or want[0] == "raises":
            if got != want:
                return "%s: exception behaviour differs from Python" % name, {"case": c, "got": repr(got), "expected": repr(want)}, True, cls
            return None, None, True, cls
        if not same(plain(got[1]), want[1]):
            return "%s computes a different value than Python" % name, {"case": c, "got": repr(plain(got[1])), "expected": repr(want[1])}, True, cls
        if isinstance(got[1], Nat) and int(got[1]) < 0:
            return "%s returns a negative Nat" % name, {"case": c, "got": repr(got[1])}, True, cls
        return None, None, c["lv"] < 0 if not isinstance(c["lv"], bool) else False, cls
    if k == "str":
        op, lv = c["op"], c["lv"]
        s = Str(lv)
        rv = c.get("rv")
        rw = Str(rv) if isinstance(rv, str) and c.get("wrap_r") else rv
        table = {
            "+": (lambda: lv + rv, lambda: s + rw), "*": (lambda: lv * rv, lambda: s * rv), "==": (lambda: lv == rv, lambda: s == rw), "!=": (lambda: lv != rv, lambda: s != rw),
            "<": (lambda: lv < rv, lambda: s < rw), "upper": (lambda: lv.upper(), lambda: s.upper()), "lower": (lambda: lv.lower(), lambda: s.lower()), "len": (lambda: len(lv), lambda: len(s)),
            "getitem": (lambda: lv[rv], lambda: s[rv]), "contains": (lambda: rv in lv, lambda: s.contains(rw)), "%": (lambda: lv % rv, lambda: s % rv),
        }
        want, got = outcome(table[op][0]), outcome(table[op][1])
        cls = ["str:%s" % op]
        name = "Str %s" % op
        if want[0] == "raises" or got[0] == "raises":
            if want != got:
                return "%s: exception behaviour differs from Python" % name, {"case": c, "got": repr(got), "expected": repr(want)}, True, cls
            return None, None, True, cls + ["path:exception"]
        if not same(plain(got[1]), want[1]):
            return "%s computes a different value than Python" % name, {"case": c, "got": repr(plain(got[1])), "expected": repr(want[1])}, True, cls
        if op in ("+", "*", "getitem") and not isinstance(got[1], Str):
            return "%s does not return a Str" % name, {"case": c, "got_type": type(got[1]).__name__}, True, cls
        return None, None, any(ord(ch) > 127 for ch in lv) or bool(c.get("wrap_r")), cls
    if k == "list":
        op, lv = c["op"], c["lv"]
        l = List(lv)
        rv = c.get("rv")
        table = {
            "+": (lambda: lv + rv, lambda: l + List(rv)), "*": (lambda: lv * rv, lambda: l * rv), "==": (lambda: lv == rv, lambda: l == List(rv)), "len": (lambda: len(lv), lambda: len(l)),
            "getitem": (lambda: lv[rv], lambda: l[rv]), "in": (lambda: rv in lv, lambda: rv in l), "sum": (lambda: sum(lv), lambda: l.sum()), "reversed": (lambda: list(reversed(lv)), lambda: l.reversed()),
            "get": (lambda: lv[rv] if -len(lv) <= rv < len(lv) else None, lambda: l.get(rv)),
        }
        want, got = outcome(table[op][0]), outcome(table[op][1])
        cls = ["list:%s" % op]
        name = "List %s" % op
        if want[0] == "raises" or got[0] == "raises":
            if want != got:
                return "%s: exception behaviour differs from Python" % name, {"case": c, "got": repr(got), "expected": repr(want)}, True, cls
            return None, None, True, cls + ["path:exception"]
        if plain(got[1]) != want[1]:
            return "%s computes a different value than Python" % name, {"case": c, "got": repr(plain(got[1])), "expected": repr(want[1])}, True, cls
        return None, None, len(lv) > 0, cls
    return None, None, False, []


def main():
    argv = sys.argv[1:]
    t = pyengine.tier(argv)
    run = pyengine.Run(
        "C26", t,
        "operand pairs for every arithmetic / comparison operator between Nat, Int, Float, Bool, NatMut, IntMut, FloatMut wrappers and plain ints / floats (integers up to +-2**70 and boundary values, floats incl. NaN, infinities, signed zeros, subnormals), unary neg/pos/abs/succ/pred, Str operations (+ * == != < upper lower len getitem contains %) over Unicode text with wrapped and plain right operands, List operations (+ * == len getitem in sum reversed get). Oracle: the builtin operation on the unwrapped values (same value bit-for-bit for floats, or the same exception type); results must be instances of the promised wrapper (Nat+Nat, Nat*Nat stay Nat; Nat op Int and Int op Int are Int; Float op number is Float; Str results are Str) and no Nat instance is negative. Non-trivial = mixed wrapper / plain or mixed-sign operands; distinct by case",
        ["the classes are imported from the working tree's lib/core; python3-vt (CPython 3.11) is the reference"],
    )
    rp = pyengine.replay_arg(argv)
    if rp:
        d = json.load(open(rp))
        sig, detail, _, _ = evaluate(d["case"])
        print("replay %s -> %s" % (rp, sig))
        if sig is None:
            return 0
        if sig in run.known_sigs and "--strict" not in argv:
            print("KNOWN-FINDING: property=C26 %s" % run.known_sigs[sig]["what"])
            return 0
        print("VIOLATION property=C26 replay=%s" % rp)
        return 1
    n = {"quick": 40000, "thorough": 600000}[t]
    if os.environ.get("VERIF_CASES"):
        n = int(os.environ["VERIF_CASES"])
    failures = {}

    def drive(strategy, count):
        @hseed(pyengine.seed())
        @settings(max_examples=count, database=None, deadline=None, suppress_health_check=list(HealthCheck), phases=[Phase.generate])
        @given(strategy)
        def prop(c):
            sig, detail, nt, cls = evaluate(c)
            if any(x.startswith("discard") for x in cls):
                run.discarded += 1
                return
            if sig is None:
                run.passed(c, nt, cls)
            else:
                failures.setdefault(sig, (c, detail))
                run.evaluations += 1
                for x in cls:
                    run.count(x)
        prop()

    drive(num_case(), n * 6 // 10)
    drive(un_case(), n // 10)
    drive(str_case(), n * 2 // 10)
    drive(list_case(), n // 10)
    # minimise each distinct failure with Hypothesis' shrinker (find the smallest case with that signature)
    from hypothesis import find
    for sig, (c, detail) in sorted(failures.items()):
        strat = {"bin": num_case(), "un": un_case(), "str": str_case(), "list": list_case()}[c["kind"]]
        try:
            small = find(strat, lambda x: evaluate(x)[0] == sig, settings=settings(max_examples=3000, database=None, deadline=None, suppress_health_check=list(HealthCheck)), random=__import__("random").Random(pyengine.seed()))
            s2, d2, _, _ = evaluate(small)
            c, detail = small, d2
        except Exception:
            pass
        run.evaluations -= 1
        run.failed(sig, c, detail)
    return run.finish(lambda case: evaluate(case)[0])


if __name__ == "__main__":
    sys.exit(main())
