# Persistent Python exec worker used by the Rust harness (one per interpreter version).
# Protocol: one JSON object per line on stdin, one JSON object per line on the *protocol*
# fd (a dup of the original stdout; fd 1 itself is re-pointed per case).
# Every `run_*` request is executed in a forked child, so cases cannot leak state into
# each other, `sys.exit`, crashes and endless loops are contained, and the parent only
# pre-imports modules (a throughput device; no verdict depends on it).
# Works on Python 3.7 .. 3.13 (no syntax newer than 3.7).
import sys, os, json, marshal, io, traceback, select, signal, time, importlib.util, binascii

PROTO = os.fdopen(os.dup(1), "w")
_devnull = os.open(os.devnull, os.O_WRONLY)
os.dup2(_devnull, 1)
_mods = {}


def _hex(b):
    return binascii.hexlify(b).decode("ascii")


def _status_of_systemexit(e):
    c = e.code
    if c is None:
        return 0
    if isinstance(c, bool):
        return int(c)
    if isinstance(c, int):
        return c & 0xFF
    return 1


def _innermost(tb):
    # walks the traceback by hand: traceback.extract_tb raises on code objects whose line
    # table is malformed, and the frame is only auxiliary information
    last = None
    while tb is not None:
        last = tb
        tb = tb.tb_next
    if last is None:
        return None
    code = last.tb_frame.f_code
    try:
        line = last.tb_lineno
    except Exception:
        line = None
    text = ""
    try:
        import linecache
        if isinstance(line, int) and line > 0:
            text = linecache.getline(code.co_filename, line).strip()
    except Exception:
        text = ""
    return {"file": code.co_filename, "line": line if isinstance(line, int) else -1, "text": text, "func": code.co_name}


def _run_child(req, out_path):
    fd = os.open(out_path, os.O_WRONLY | os.O_CREAT | os.O_TRUNC, 0o644)
    os.dup2(fd, 1)
    if req.get("stderr_path"):
        efd = os.open(req["stderr_path"], os.O_WRONLY | os.O_CREAT | os.O_TRUNC, 0o644)
        os.dup2(efd, 2)
    else:
        os.dup2(_devnull, 2)
    sys.stdout = io.TextIOWrapper(io.FileIO(1, "w", closefd=False), encoding="utf-8", errors="backslashreplace")
    sys.stderr = io.TextIOWrapper(io.FileIO(2, "w", closefd=False), encoding="utf-8", errors="backslashreplace")
    res = {"exc": None, "status": 0, "phase": "run", "msg": "", "frame": None}
    path = req["path"]
    sys.argv = [path] + list(req.get("args", []))
    if req.get("cwd"):
        os.chdir(req["cwd"])
    g = {"__name__": "__main__", "__builtins__": __builtins__}
    try:
        res["phase"] = "load"
        if req["op"] == "run_pyc":
            with open(path, "rb") as f:
                data = f.read()
            code = marshal.loads(data[16:])
        else:
            with open(path, "rb") as f:
                src = f.read().decode("utf-8")
            code = compile(src, path, "exec")
        res["phase"] = "run"
        exec(code, g)
    except SystemExit as e:
        res["status"] = _status_of_systemexit(e)
        res["exc"] = None
        res["sysexit"] = True
    except BaseException as e:
        res["exc"] = type(e).__name__
        res["status"] = 1
        try:
            res["msg"] = str(e)[:300]
        except Exception:
            res["msg"] = "<unprintable>"
        try:
            res["frame"] = _innermost(e.__traceback__)
        except BaseException:
            res["frame"] = None
        if req.get("stderr_path"):
            try:
                traceback.print_exc()
            except BaseException:
                pass
    try:
        sys.stdout.flush()
        sys.stderr.flush()
    except Exception:
        pass
    return res


def _forked(req, fn):
    r, w = os.pipe()
    pid = os.fork()
    if pid == 0:
        code = 0
        try:
            os.close(r)
            res = fn()
            os.write(w, json.dumps(res).encode("utf-8"))
        except BaseException as e:
            try:
                os.write(w, json.dumps({"infra_error": repr(e)}).encode("utf-8"))
            except Exception:
                pass
            code = 3
        os._exit(code)
    os.close(w)
    timeout = float(req.get("timeout", 20.0))
    deadline = time.time() + timeout
    chunks = []
    timed_out = False
    while True:
        left = deadline - time.time()
        if left <= 0:
            timed_out = True
            break
        rl, _, _ = select.select([r], [], [], left)
        if not rl:
            timed_out = True
            break
        b = os.read(r, 1 << 16)
        if not b:
            break
        chunks.append(b)
    os.close(r)
    if timed_out:
        try:
            os.kill(pid, signal.SIGKILL)
        except Exception:
            pass
    _, st = os.waitpid(pid, 0)
    if timed_out:
        return {"timeout": True}
    data = b"".join(chunks)
    if not data:
        sig = st & 0x7F
        return {"died": True, "signal": sig, "wait_status": st}
    return json.loads(data.decode("utf-8"))


def handle(req):
    op = req["op"]
    if op == "ping":
        return {"ok": True, "version": list(sys.version_info[:3])}
    if op == "warm":
        for p in req.get("sys_path", []):
            if p not in sys.path:
                sys.path.append(p)
        errs = []
        for m in req.get("modules", []):
            try:
                __import__(m)
            except BaseException as e:
                errs.append(repr(e))
        return {"ok": True, "errors": errs}
    if op in ("run_pyc", "run_py"):
        out_path = req["out_path"]
        res = _forked(req, lambda: _run_child(req, out_path))
        try:
            with open(out_path, "rb") as f:
                out = f.read()
        except Exception:
            out = b""
        lim = int(req.get("max_out", 4 << 20))
        res["stdout_hex"] = _hex(out[:lim])
        res["stdout_len"] = len(out)
        return res
    if op == "call":
        mpath = req["module"]
        mod = _mods.get(mpath)
        if mod is None:
            spec = importlib.util.spec_from_file_location("vmod_%d" % len(_mods), mpath)
            mod = importlib.util.module_from_spec(spec)
            spec.loader.exec_module(mod)
            _mods[mpath] = mod
        fn = getattr(mod, req["func"])
        if req.get("fork", False):
            return _forked(req, lambda: {"ok": True, "value": fn(req.get("args"))})
        return {"ok": True, "value": fn(req.get("args"))}
    return {"error": "unknown op %r" % (op,)}


def main():
    for line in sys.stdin:
        line = line.strip()
        if not line:
            continue
        try:
            req = json.loads(line)
            res = handle(req)
        except BaseException as e:
            res = {"error": repr(e), "trace": traceback.format_exc()[-800:]}
        PROTO.write(json.dumps(res) + "\n")
        PROTO.flush()


if __name__ == "__main__":
    main()
