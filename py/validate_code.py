# Structural validator for code objects (C14). Runs under the *target* interpreter
# (3.7 .. 3.11): a worklist abstract interpretation over the bytecode using that
# interpreter's own dis.stack_effect, following CPython's stackdepth() rules.
import dis, marshal, sys, types

PY = sys.version_info[:2]
HAVE_JUMP_ARG = PY >= (3, 8)


def _effect(op, arg, jump):
    name = dis.opname[op]
    if HAVE_JUMP_ARG:
        if op >= dis.HAVE_ARGUMENT:
            return dis.stack_effect(op, arg, jump=jump)
        return dis.stack_effect(op, jump=jump) if False else dis.stack_effect(op)
    # 3.7: no jump= parameter; branch-dependent effects transcribed from CPython 3.7 compile.c
    if name == "FOR_ITER":
        return -1 if jump else 1
    if name in ("JUMP_IF_TRUE_OR_POP", "JUMP_IF_FALSE_OR_POP"):
        return 0 if jump else -1
    if name in ("SETUP_EXCEPT", "SETUP_FINALLY"):
        return 6 if jump else 0
    if name in ("SETUP_WITH",):
        return 6 if jump else 1
    if name == "SETUP_ASYNC_WITH":
        return 5 if jump else 0
    if name == "SETUP_LOOP":
        return 0
    if op >= dis.HAVE_ARGUMENT:
        return dis.stack_effect(op, arg)
    return dis.stack_effect(op)


def _instructions(code):
    """[(offset, op, arg, size_in_bytes_including_extended_args_and_caches)]"""
    co = code.co_code
    out = []
    i = 0
    ext = 0
    n = len(co)
    caches = getattr(dis, "_inline_cache_entries", None)
    start = None
    while i + 1 < n + 1 and i < n:
        op = co[i]
        arg = co[i + 1] if i + 1 < n else 0
        if start is None:
            start = i
        if op == dis.EXTENDED_ARG:
            ext = (ext | arg) << 8
            i += 2
            continue
        full = ext | arg
        ext = 0
        size = 2
        if caches is not None:
            size += 2 * caches[op]
        out.append((start, i, op, full, i + size))
        i += size
        start = None
    return out, (start is not None)


def _jump_target(name, op, arg, next_off, PYV):
    if op in dis.hasjabs:
        return arg * 2 if PYV >= (3, 10) else arg
    if op in dis.hasjrel:
        scale = 2 if PYV >= (3, 10) else 1
        if "BACKWARD" in name:
            return next_off - arg * scale
        return next_off + arg * scale
    return None


# instructions CPython's own compiler leaves without a line (artificial clean-up code)
LINELESS_OK = {
    "COPY", "COPY_FREE_VARS", "DELETE_FAST", "DELETE_NAME", "EXTENDED_ARG", "GEN_START", "JUMP_ABSOLUTE", "JUMP_BACKWARD",
    "JUMP_FORWARD", "LOAD_CONST", "MAKE_CELL", "POP_BLOCK", "POP_EXCEPT", "PUSH_EXC_INFO", "RERAISE", "STORE_FAST", "STORE_NAME",
    "RESUME", "CACHE", "NOP", "RETURN_VALUE", "POP_TOP",
}

NO_FALLTHROUGH = {"JUMP_FORWARD", "JUMP_ABSOLUTE", "RETURN_VALUE", "RAISE_VARARGS", "RERAISE", "JUMP_BACKWARD", "JUMP_BACKWARD_NO_INTERRUPT", "BREAK_LOOP", "CONTINUE_LOOP"}


def _exception_table(code):
    if not hasattr(code, "co_exceptiontable"):
        return []
    try:
        return list(dis._parse_exception_table(code))
    except Exception as e:
        return [("bad", repr(e))]


def check_code(code, src_lines, problems, path):
    name = "%s:%s" % (path, code.co_name)
    co = code.co_code
    if len(co) % 2:
        problems.append({"kind": "odd-code-length", "where": name})
        return
    instrs, dangling = _instructions(code)
    if dangling:
        problems.append({"kind": "dangling-extended-arg", "where": name})
    starts = {}
    for k, (start, at, op, arg, nxt) in enumerate(instrs):
        starts[start] = k
    nconsts, nnames = len(code.co_consts), len(code.co_names)
    nlocals = len(code.co_varnames)
    if PY >= (3, 11):
        nfast = len(code.co_varnames) + len(code.co_cellvars) + len(code.co_freevars)
        # cells that are also arguments share a slot
        nfast_min = len(set(code.co_varnames) | set(code.co_cellvars)) + len(code.co_freevars)
    ncellfree = len(code.co_cellvars) + len(code.co_freevars)
    # operand ranges, jump targets
    for (start, at, op, arg, nxt) in instrs:
        opname = dis.opname[op]
        if opname.startswith("<"):
            problems.append({"kind": "unknown-opcode", "where": name, "offset": at, "op": op})
            continue
        if op in dis.hasconst and not (0 <= arg < nconsts):
            problems.append({"kind": "const-index-out-of-range", "where": name, "offset": at, "op": opname, "arg": arg, "n": nconsts})
        if op in dis.hasname:
            idx = arg
            if PY >= (3, 11) and opname == "LOAD_GLOBAL":
                idx = arg >> 1
            if PY >= (3, 12) and opname == "LOAD_ATTR":
                idx = arg >> 1
            if not (0 <= idx < nnames):
                problems.append({"kind": "name-index-out-of-range", "where": name, "offset": at, "op": opname, "arg": arg, "n": nnames})
        if op in dis.haslocal:
            lim = nfast if PY >= (3, 11) else nlocals
            if not (0 <= arg < lim):
                problems.append({"kind": "local-index-out-of-range", "where": name, "offset": at, "op": opname, "arg": arg, "n": lim})
        if op in dis.hasfree:
            if PY >= (3, 11):
                if not (0 <= arg < nfast):
                    problems.append({"kind": "free-index-out-of-range", "where": name, "offset": at, "op": opname, "arg": arg, "n": nfast})
            elif not (0 <= arg < ncellfree):
                problems.append({"kind": "free-index-out-of-range", "where": name, "offset": at, "op": opname, "arg": arg, "n": ncellfree})
        tgt = _jump_target(opname, op, arg, nxt, PY)
        if tgt is not None:
            if tgt not in starts or not (0 <= tgt < len(co)):
                problems.append({"kind": "jump-target-not-an-instruction", "where": name, "offset": at, "op": opname, "target": tgt})
    # stack depth: worklist over (instruction index, depth)
    maxdepth = 0
    seen = {}
    work = [(0, 0)] if instrs else []
    opnames = set(dis.opname[op] for (_s, _a, op, _g, _n) in instrs)
    # not analysed (counted by the caller as such): generator/coroutine frames start with an
    # implicit value, and the block-stack model of try/finally before 3.9 is not the one
    # dis.stack_effect describes instruction by instruction
    if code.co_flags & (0x20 | 0x80 | 0x100 | 0x200) or (PY < (3, 9) and opnames & {"SETUP_FINALLY", "SETUP_EXCEPT", "END_FINALLY", "BEGIN_FINALLY", "CALL_FINALLY", "POP_FINALLY", "WITH_CLEANUP_START", "SETUP_WITH"}):
        work = []
        skip_stack = True
        problems.append({"kind": "note:stack-not-analysed", "where": name})
    else:
        skip_stack = False
    for ent in ([] if skip_stack else _exception_table(code)):
        if isinstance(ent, tuple) and ent and ent[0] == "bad":
            problems.append({"kind": "bad-exception-table", "where": name, "detail": ent[1]})
            continue
        tgt, depth, lasti = ent.target, ent.depth, ent.lasti
        if tgt not in starts:
            problems.append({"kind": "handler-target-not-an-instruction", "where": name, "target": tgt})
            continue
        work.append((starts[tgt], depth + 1 + (1 if lasti else 0)))
    negative_reported = False
    steps = 0
    while work:
        k, d = work.pop()
        while True:
            steps += 1
            if steps > 400000:
                problems.append({"kind": "stack-analysis-did-not-converge", "where": name})
                work = []
                break
            if k >= len(instrs):
                problems.append({"kind": "falls-off-the-end", "where": name})
                break
            if k in seen and seen[k] >= d:
                break
            seen[k] = d
            (start, at, op, arg, nxt) = instrs[k]
            opname = dis.opname[op]
            if opname.startswith("<"):
                break
            try:
                e_fall = _effect(op, arg, False)
            except Exception as e:
                problems.append({"kind": "stack-effect-undefined", "where": name, "offset": at, "op": opname, "arg": arg, "detail": repr(e)})
                break
            tgt = _jump_target(opname, op, arg, nxt, PY)
            if tgt is not None and tgt in starts:
                try:
                    e_jump = _effect(op, arg, True)
                except Exception:
                    e_jump = e_fall
                dj = d + e_jump
                maxdepth = max(maxdepth, dj, d)
                if dj < 0 and not negative_reported:
                    negative_reported = True
                    problems.append({"kind": "negative-stack-depth", "where": name, "offset": at, "op": opname})
                work.append((starts[tgt], max(dj, 0)))
            d2 = d + e_fall
            maxdepth = max(maxdepth, d2, d)
            if d2 < 0 and not negative_reported:
                negative_reported = True
                problems.append({"kind": "negative-stack-depth", "where": name, "offset": at, "op": opname})
                d2 = 0
            if opname in NO_FALLTHROUGH:
                break
            d = d2
            k += 1
    if maxdepth > code.co_stacksize:
        problems.append({"kind": "stacksize-too-small", "where": name, "declared": code.co_stacksize, "needed": maxdepth})
    # line table
    nlines = len(src_lines)
    try:
        if hasattr(code, "co_lines"):
            covered = [None] * (len(co) // 2)
            for (s, e, ln) in code.co_lines():
                for j in range(s // 2, min(e // 2, len(covered))):
                    covered[j] = ln
            bad = None
            for (start, at, op, arg, nxt) in instrs:
                ln = covered[at // 2] if at // 2 < len(covered) else None
                if PY >= (3, 11) and dis.opname[op] in ("RESUME", "CACHE", "COPY_FREE_VARS", "MAKE_CELL"):
                    continue
                if ln is None:
                    if dis.opname[op] in LINELESS_OK:
                        continue
                    bad = (at, dis.opname[op], ln)
                    break
                if not (1 <= ln <= max(nlines, 1)):
                    bad = (at, dis.opname[op], ln)
                    break
            if bad:
                problems.append({"kind": "instruction-without-valid-line", "where": name, "offset": bad[0], "op": bad[1], "line": bad[2], "source_lines": nlines})
        else:
            for off, ln in dis.findlinestarts(code):
                if not (1 <= ln <= max(nlines, 1)):
                    problems.append({"kind": "instruction-without-valid-line", "where": name, "offset": off, "op": "", "line": ln, "source_lines": nlines})
                    break
    except Exception as e:
        problems.append({"kind": "line-table-unreadable", "where": name, "detail": repr(e)})
    for c in code.co_consts:
        if isinstance(c, types.CodeType):
            check_code(c, src_lines, problems, path + "/" + code.co_name)


def validate(args):
    """args: {"pyc": path, "source_lines": int} -> {"problems": [...], "code_objects": n, "jumps": n, "calls": n}"""
    with open(args["pyc"], "rb") as f:
        data = f.read()
    try:
        code = marshal.loads(data[16:])
    except Exception as e:
        return {"problems": [{"kind": "unmarshal-failed", "detail": repr(e)}], "code_objects": 0, "jumps": 0, "calls": 0}
    if not isinstance(code, types.CodeType):
        return {"problems": [{"kind": "not-a-code-object", "detail": type(code).__name__}], "code_objects": 0, "jumps": 0, "calls": 0}
    problems = []
    src_lines = [None] * int(args.get("source_lines", 0))
    check_code(code, src_lines, problems, "")
    stats = {"code_objects": 0, "jumps": 0, "calls": 0}

    def count(c):
        stats["code_objects"] += 1
        ins, _ = _instructions(c)
        for (start, at, op, arg, nxt) in ins:
            if op in dis.hasjabs or op in dis.hasjrel:
                stats["jumps"] += 1
            if dis.opname[op].startswith("CALL") or dis.opname[op] == "PRECALL":
                stats["calls"] += 1
        for k in c.co_consts:
            if isinstance(k, types.CodeType):
                count(k)

    count(code)
    stats["problems"] = problems[:20]
    return stats
