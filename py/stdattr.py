# Oracle helpers of C27: attribute names of a stdlib module in the running interpreter
# (dir_of) and names defined in the bundled typeshed stub (stub_names; python3-vt only).
import importlib, sys, os, warnings


def dir_of(args):
    warnings.simplefilter("ignore")
    try:
        m = importlib.import_module(args["module"])
    except BaseException as e:
        return {"error": repr(e)}
    return {"names": sorted(set(dir(m)))}


_STUB_ROOT = None


def _stub_root():
    global _STUB_ROOT
    if _STUB_ROOT is None:
        import typeshed_client
        _STUB_ROOT = os.path.join(os.path.dirname(typeshed_client.__file__), "typeshed")
    return _STUB_ROOT


def _stub_file(mod):
    base = os.path.join(_stub_root(), *mod.split("."))
    for cand in (base + ".pyi", os.path.join(base, "__init__.pyi")):
        if os.path.isfile(cand):
            return cand
    return None


def _names_of(mod, seen):
    import ast
    if mod in seen:
        return set()
    seen.add(mod)
    f = _stub_file(mod)
    if f is None:
        return None
    with open(f, "r", encoding="utf-8") as fh:
        tree = ast.parse(fh.read())
    is_pkg = f.endswith("__init__.pyi")
    names = set()

    def target_names(t):
        if isinstance(t, ast.Name):
            names.add(t.id)
        elif isinstance(t, (ast.Tuple, ast.List)):
            for e in t.elts:
                target_names(e)

    def visit(body):
        for n in body:
            if isinstance(n, (ast.FunctionDef, ast.AsyncFunctionDef, ast.ClassDef)):
                names.add(n.name)
            elif isinstance(n, ast.Assign):
                for t in n.targets:
                    target_names(t)
            elif isinstance(n, ast.AnnAssign):
                target_names(n.target)
            elif isinstance(n, ast.Import):
                for a in n.names:
                    names.add((a.asname or a.name).split(".")[0])
            elif isinstance(n, ast.ImportFrom):
                if n.level:
                    parts = mod.split(".")
                    if not is_pkg:
                        parts = parts[:-1]
                    parts = parts[: len(parts) - (n.level - 1)] if n.level > 1 else parts
                    src = ".".join(parts + ([n.module] if n.module else []))
                else:
                    src = n.module or ""
                for a in n.names:
                    if a.name == "*":
                        sub = _names_of(src, seen)
                        if sub:
                            names.update(x for x in sub if not x.startswith("_"))
                    else:
                        names.add(a.asname or a.name)
            elif isinstance(n, ast.If):
                visit(n.body)
                visit(n.orelse)
            elif isinstance(n, ast.Try):
                visit(n.body)
                visit(n.orelse)
                visit(n.finalbody)
                for h in n.handlers:
                    visit(h.body)
            elif isinstance(n, (ast.With,)):
                visit(n.body)

    visit(tree.body)
    # submodules of a package are attributes once imported
    if is_pkg:
        d = os.path.dirname(f)
        for e in os.listdir(d):
            if e.endswith(".pyi") and e != "__init__.pyi":
                names.add(e[:-4])
            elif os.path.isdir(os.path.join(d, e)) and os.path.isfile(os.path.join(d, e, "__init__.pyi")):
                names.add(e)
    return names


def stub_names(args):
    r = _names_of(args["module"], set())
    if r is None:
        return {"error": "no stub"}
    # every module object has these
    r.update(["__name__", "__doc__", "__file__", "__spec__", "__loader__", "__package__", "__dict__", "__path__", "__all__"])
    return {"names": sorted(r)}
