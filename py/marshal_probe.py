# C15 oracle helper: what does this interpreter's unmarshaller make of the bytes?
import marshal, binascii, struct, math


def describe(x):
    t = type(x).__name__
    if isinstance(x, bool):
        return {"t": "bool", "v": x}
    if isinstance(x, int):
        return {"t": "int", "v": str(x)}
    if isinstance(x, float):
        return {"t": "float", "v": binascii.hexlify(struct.pack(">d", x)).decode()}
    if isinstance(x, str):
        return {"t": "str", "v": binascii.hexlify(x.encode("utf-8", "surrogatepass")).decode()}
    if x is None:
        return {"t": "NoneType"}
    if isinstance(x, tuple):
        return {"t": "tuple", "v": [describe(e) for e in x]}
    if isinstance(x, list):
        return {"t": "list", "v": [describe(e) for e in x]}
    return {"t": t}


def loads(args):
    data = binascii.unhexlify(args["hex"])
    try:
        v = marshal.loads(data)
    except Exception as e:
        return {"error": "%s: %s" % (type(e).__name__, e)}
    return {"value": describe(v)}
