#!/bin/bash
# Offline setup after a fresh restore: build the harness binaries against /repo.
set -e
cd "$(dirname "${BASH_SOURCE[0]}")"
export CARGO_NET_OFFLINE=true
mkdir -p target/work evidence
( cd harness/core && cargo build --release --offline )
# the CLI without the `parallel` feature (C19)
( cd harness/seq && cargo build --release --offline )
if [ -f harness/lsp/Cargo.toml ] && [ -f harness/lsp/src/main.rs ]; then
  ( cd harness/lsp && cargo build --release --offline )
fi
echo "setup ok"
