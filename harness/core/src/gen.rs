//! ProgGen — the typed fragment grammar shared by the program-level properties.
//!
//! A program is generated *by construction* from a choice tape (`Vec<u32>`, produced by
//! proptest so that seeding, shrinking and replay stay inside the library): every choice
//! pulls the next tape entry, an exhausted tape yields 0 and choice 0 is always the simplest
//! alternative, so shrinking the tape shrinks the program.  The IR is rendered by two
//! independent printers: `to_erg` and `to_python` (the Python-semantics reading; it shares
//! nothing with erg's transpiler or runtime classes).
use vkit::util::idx;

pub struct Tape<'a> {
    data: &'a [u32],
    pos: usize,
}
impl<'a> Tape<'a> {
    pub fn new(data: &'a [u32]) -> Self {
        Tape { data, pos: 0 }
    }
    pub fn next(&mut self) -> u32 {
        let v = self.data.get(self.pos).copied().unwrap_or(0);
        self.pos += 1;
        v
    }
    /// uniform pick in 0..n (0 when the tape is exhausted)
    pub fn pick(&mut self, n: usize) -> usize {
        idx(self.next(), n)
    }
    /// weighted pick; weights[0] belongs to the simplest alternative
    pub fn weighted(&mut self, weights: &[u32]) -> usize {
        let total: u64 = weights.iter().map(|w| *w as u64).sum();
        if total == 0 {
            return 0;
        }
        let mut x = (self.next() as u64 * total) >> 32;
        for (i, w) in weights.iter().enumerate() {
            if x < *w as u64 {
                return i;
            }
            x -= *w as u64;
        }
        weights.len() - 1
    }
    pub fn chance(&mut self, num: u32, den: u32) -> bool {
        // false when the tape is exhausted
        ((self.next() as u64 * den as u64) >> 32) as u32 >= den - num && num > 0
    }
    pub fn exhausted(&self) -> bool {
        self.pos >= self.data.len()
    }
}

#[derive(Clone, Debug, PartialEq, Eq, Hash)]
pub enum Ty {
    Nat,
    Int,
    Float,
    Str,
    Bool,
    List(Box<Ty>),
}
impl Ty {
    pub fn erg(&self) -> String {
        match self {
            Ty::Nat => "Nat".into(),
            Ty::Int => "Int".into(),
            Ty::Float => "Float".into(),
            Ty::Str => "Str".into(),
            Ty::Bool => "Bool".into(),
            Ty::List(t) => format!("[{}; _]", t.erg()),
        }
    }
    /// can a value of `self` be used where `other` is expected?
    pub fn fits(&self, other: &Ty) -> bool {
        self == other || matches!((self, other), (Ty::Nat, Ty::Int))
    }
}

#[derive(Clone, Debug)]
pub enum Expr {
    Nat(u64),
    /// `-n` written as a literal
    NegInt(u64),
    /// literal text (non-negative), negative flag
    Float(String, bool),
    Str(String),
    Bool(bool),
    Var(String),
    Bin(&'static str, Box<Expr>, Box<Expr>),
    Not(Box<Expr>),
    Neg(Box<Expr>),
    Call(String, Vec<Expr>, Vec<(String, Expr)>),
    Builtin(&'static str, Vec<Expr>),
    Method(Box<Expr>, &'static str, Vec<Expr>),
    If(Box<Expr>, Box<Expr>, Box<Expr>),
    List(Vec<Expr>),
    Index(Box<Expr>, Box<Expr>),
    In(Box<Expr>, Box<Expr>),
    /// alternating text / expression parts of an interpolated string
    Interp(Vec<(String, Option<Expr>)>),
    /// `(e: T)` type ascription
    Ascribe(Box<Expr>, Ty),
    /// call of a user procedure `p!()` (top-level statements only)
    ProcCall(String),
    /// `f(a, *[b, c])`
    CallSpread(String, Vec<Expr>, Vec<Expr>),
    /// `recv.m(pos, k := v)`
    MethodKw(Box<Expr>, &'static str, Vec<Expr>, Vec<(&'static str, Expr)>),
    /// `print! args` used as a value (NoneType)
    PrintCall(Vec<Expr>),
}

#[derive(Clone, Debug)]
pub struct Param {
    pub name: String,
    pub ty: Ty,
    pub default: Option<Expr>,
}

#[derive(Clone, Debug)]
pub enum Stmt {
    Let { name: String, ann: Option<Ty>, e: Expr },
    Print(Vec<Expr>),
    Func { name: String, params: Vec<Param>, ret: Ty, ret_ann: bool, body: Vec<Stmt>, result: Expr },
    Lambda { name: String, params: Vec<(String, Ty)>, body: Expr },
    /// `for! lo..<hi, i =>` (or `lo..hi` when inclusive)
    ForRange { var: String, lo: Expr, hi: Expr, inclusive: bool, body: Vec<Stmt> },
    /// `list_var = list; for! list_var, var =>`
    ForList { var: String, list_var: String, list: Expr, body: Vec<Stmt> },
    /// `c = !0; while! do! c < limit, do!: body; c.inc!()`
    While { counter: String, limit: u64, body: Vec<Stmt> },
    /// `cond_var = cond; if! cond_var: ...`
    IfStmt { cond_var: String, cond: Expr, then: Vec<Stmt>, els: Option<Vec<Stmt>> },
    PatList { names: Vec<String>, elems: Vec<Expr> },
    PatTuple { names: Vec<String>, elems: Vec<Expr> },
    Assert(Expr),
    Exit(u8),
    /// `p!() =` newline prints, result
    ProcDef { name: String, prints: Vec<Expr>, result: Expr },
    /// `name =` newline block, result
    LetBlock { name: String, body: Vec<Stmt>, result: Expr },
    /// one-line statements written on one line, separated by `; `
    Seq(Vec<Stmt>),
    /// statements generated together, each on its own line(s)
    Group(Vec<Stmt>),
}

#[derive(Clone, Debug, Default)]
pub struct Program {
    pub stmts: Vec<Stmt>,
}

// ------------------------------------------------------------------------------------------
// generation

#[derive(Clone, Debug)]
pub struct FuncSig {
    pub name: String,
    pub params: Vec<Param>,
    pub ret: Ty,
    pub is_lambda: bool,
}

#[derive(Clone, Debug)]
pub struct GenCfg {
    pub max_stmts: usize,
    pub max_depth: usize,
    /// strings with quotes, backslashes, braces, non-ASCII
    pub wild_strings: bool,
    /// boundary literals (2**31.., signed zeros)
    pub boundary_literals: bool,
    pub loops: bool,
    pub functions: bool,
    pub exits: bool,
    /// operands biased to negative / mixed sign, results flowing into method calls (C02)
    pub negative_bias: bool,
    /// leave out constructs whose defect is a recorded known finding (counted as
    /// feature `excluded:*`), so that the search continues behind them
    pub avoid_known: bool,
    /// C12: bindings are not printed automatically (so some stay unused) and definitions
    /// with side effects (print!, procedure calls, block bodies) are generated
    pub unused_defs: bool,
    /// construct switches (C17 runs on the sub-fragment the transpiler handles)
    pub no_while: bool,
    pub no_interp: bool,
    pub no_defaults: bool,
    pub no_if_expr: bool,
    pub no_range_loops: bool,
    pub no_if_stmt: bool,
    pub no_loops_in_if: bool,
}
impl Default for GenCfg {
    fn default() -> Self {
        GenCfg { max_stmts: 14, max_depth: 4, wild_strings: false, boundary_literals: true, loops: true, functions: true, exits: true, negative_bias: false, avoid_known: true, unused_defs: false, no_while: false, no_interp: false, no_defaults: false, no_if_expr: false, no_range_loops: false, no_if_stmt: false, no_loops_in_if: false }
    }
}

pub struct Gen<'a> {
    pub t: Tape<'a>,
    pub cfg: GenCfg,
    vars: Vec<(String, Ty)>,
    funcs: Vec<FuncSig>,
    counter: usize,
    /// statistics for the class histogram
    pub features: std::collections::BTreeSet<&'static str>,
    loop_depth: usize,
    in_func: bool,
    /// variables bound directly to an if-expression (their type is a union)
    union_vars: std::collections::BTreeSet<String>,
    procs: Vec<(String, Ty)>,
}

const FLOATS: &[&str] = &["0.0", "0.5", "1.0", "1.5", "2.0", "2.25", "3.0", "0.1", "10.0", "100.5", "0.001", "7.75", "1000000.0"];
const WORDS: &[&str] = &["", "a", "b", "ab", "Erg", "hello", "x y", "Z", "42", "foo_bar"];
const WILD: &[&str] = &["\"", "'", "\\", "{", "}", "\n", "é", "日本", "😀", "\t", "%s", "{}", "\\n", "#", "\u{0}"];
const NAT_BOUNDARY: &[u64] = &[2147483647, 2147483648, 2147483649, 4294967295, 4294967296, 9223372036854775807, 9223372036854775808, 18446744073709551615, 65535, 65536, 255, 256, 257];

impl<'a> Gen<'a> {
    pub fn new(tape: &'a [u32], cfg: GenCfg) -> Self {
        Gen { t: Tape::new(tape), cfg, vars: vec![], funcs: vec![], counter: 0, features: Default::default(), loop_depth: 0, in_func: false, union_vars: Default::default(), procs: vec![] }
    }
    fn fresh(&mut self, prefix: &str) -> String {
        self.counter += 1;
        format!("{prefix}{}", self.counter)
    }
    fn feat(&mut self, f: &'static str) {
        self.features.insert(f);
    }

    pub fn scalar_ty(&mut self) -> Ty {
        match self.t.weighted(&[4, 4, 2, 3, 2]) {
            0 => Ty::Nat,
            1 => Ty::Int,
            2 => Ty::Float,
            3 => Ty::Str,
            _ => Ty::Bool,
        }
    }
    pub fn any_ty(&mut self) -> Ty {
        if self.t.chance(1, 6) {
            let e = match self.t.pick(3) {
                0 => Ty::Nat,
                1 => Ty::Int,
                _ => Ty::Str,
            };
            Ty::List(Box::new(e))
        } else {
            self.scalar_ty()
        }
    }

    fn nat_lit(&mut self) -> u64 {
        match self.t.weighted(&[8, 3, if self.cfg.boundary_literals { 2 } else { 0 }]) {
            0 => self.t.pick(10) as u64,
            1 => 10 + self.t.pick(990) as u64,
            _ => {
                self.feat("lit:nat>=2^31-or-boundary");
                if self.t.pick(2) == 0 {
                    NAT_BOUNDARY[self.t.pick(NAT_BOUNDARY.len())]
                } else {
                    // every bit length 1..=64: 2**k - 1, 2**k, 2**k + 1 or a value in between
                    let k = 1 + self.t.pick(63) as u32;
                    let base = 1u64 << k;
                    match self.t.pick(4) {
                        0 => base - 1,
                        1 => base,
                        2 => base + 1,
                        _ => base | ((self.t.next() as u64) << 16 | self.t.next() as u64) & (base - 1),
                    }
                }
            }
        }
    }
    fn str_lit(&mut self) -> String {
        let mut s = WORDS[self.t.pick(WORDS.len())].to_string();
        if self.cfg.wild_strings {
            let n = self.t.pick(4);
            for _ in 0..n {
                self.feat("lit:wild-string");
                s.push_str(WILD[self.t.pick(WILD.len())]);
                s.push_str(WORDS[self.t.pick(WORDS.len())]);
            }
        } else if self.t.chance(1, 8) {
            self.feat("lit:non-ascii-string");
            s.push_str(["é", "日本", "ß"][self.t.pick(3)]);
        }
        s
    }

    pub fn literal(&mut self, ty: &Ty) -> Expr {
        match ty {
            Ty::Nat => Expr::Nat(self.nat_lit()),
            Ty::Int => {
                let neg_w = if self.cfg.negative_bias { 6 } else { 3 };
                if self.t.weighted(&[3, neg_w]) == 0 {
                    Expr::Nat(self.nat_lit())
                } else {
                    self.feat("lit:negative-int");
                    let n = match self.t.weighted(&[8, 3, if self.cfg.boundary_literals { 1 } else { 0 }]) {
                        0 => 1 + self.t.pick(9) as u64,
                        1 => 10 + self.t.pick(990) as u64,
                        _ => [2147483647u64, 2147483648, 65536, 32768][self.t.pick(4)],
                    };
                    Expr::NegInt(n)
                }
            }
            Ty::Float => {
                let s = FLOATS[self.t.pick(FLOATS.len())].to_string();
                let neg = self.t.chance(1, 4);
                if neg && s == "0.0" {
                    self.feat("lit:negative-zero");
                }
                Expr::Float(s, neg)
            }
            Ty::Str => Expr::Str(self.str_lit()),
            Ty::Bool => Expr::Bool(self.t.pick(2) == 1),
            Ty::List(e) => {
                let n = 1 + self.t.pick(4);
                Expr::List((0..n).map(|_| self.literal(e)).collect())
            }
        }
    }

    fn vars_of(&self, ty: &Ty) -> Vec<String> {
        self.vars.iter().filter(|(_, t)| t.fits(ty)).map(|(n, _)| n.clone()).collect()
    }
    fn funcs_returning(&self, ty: &Ty) -> Vec<FuncSig> {
        self.funcs.iter().filter(|f| f.ret.fits(ty)).cloned().collect()
    }

    fn call_of(&mut self, f: &FuncSig, depth: usize) -> Expr {
        let mut pos = vec![];
        let mut kw = vec![];
        for p in &f.params {
            if p.default.is_some() {
                match self.t.pick(3) {
                    0 => {} // omitted: default used
                    1 => {
                        self.feat("call:keyword-arg");
                        kw.push((p.name.clone(), self.expr(&p.ty, depth + 1)));
                    }
                    _ => {
                        if kw.is_empty() {
                            pos.push(self.expr(&p.ty, depth + 1));
                        } else {
                            kw.push((p.name.clone(), self.expr(&p.ty, depth + 1)));
                        }
                    }
                }
            } else {
                pos.push(self.expr(&p.ty, depth + 1));
            }
        }
        self.feat(if f.is_lambda { "call:lambda" } else { "call:function" });
        // spread the trailing positional arguments: `f(a, *[b, c])`
        if !self.cfg.no_defaults && kw.is_empty() && !f.is_lambda && pos.len() >= 2 && pos.len() == f.params.len() && self.t.chance(1, 3) {
            let n = f.params.len();
            let k = 1 + self.t.pick(n - 1); // spread the last k
            let tys: Vec<&Ty> = f.params[n - k..].iter().map(|p| &p.ty).collect();
            if tys.iter().all(|t| **t == *tys[0]) && f.params.iter().all(|p| p.default.is_none()) {
                self.feat("call:spread-args");
                let spread = pos.split_off(n - k);
                return Expr::CallSpread(f.name.clone(), pos, spread);
            }
        }
        Expr::Call(f.name.clone(), pos, kw)
    }

    /// an expression of type `ty` (a `Nat` expression may stand where `Int` is asked)
    pub fn expr(&mut self, ty: &Ty, depth: usize) -> Expr {
        let deep = depth >= self.cfg.max_depth;
        let vars = self.vars_of(ty);
        let funcs = if deep { vec![] } else { self.funcs_returning(ty) };
        // alternatives: 0 literal, 1 variable, 2 operator, 3 call, 4 if, 5 builtin/method, 6 index
        let w_var = if vars.is_empty() { 0 } else if self.cfg.negative_bias { 12 } else { 6 };
        let w_op = if deep { 0 } else { 7 };
        let w_call = if funcs.is_empty() { 0 } else { 9 };
        let w_if = if deep || self.cfg.no_if_expr { 0 } else { 1 };
        let w_bm = if deep { 0 } else { 2 };
        let list_vars: Vec<(String, Ty)> = self.vars.iter().filter(|(_, t)| matches!(t, Ty::List(e) if e.fits(ty))).cloned().collect();
        let w_idx = if list_vars.is_empty() || deep { 0 } else { 3 };
        match self.t.weighted(&[4, w_var, w_op, w_call, w_if, w_bm, w_idx]) {
            0 => self.literal(ty),
            1 => Expr::Var(vars[self.t.pick(vars.len())].clone()),
            2 => self.op_expr(ty, depth),
            3 => {
                let f = funcs[self.t.pick(funcs.len())].clone();
                self.call_of(&f, depth)
            }
            4 => {
                self.feat("expr:if");
                let c = self.expr(&Ty::Bool, depth + 1);
                let a = self.expr(ty, depth + 1);
                let b = self.expr(ty, depth + 1);
                Expr::If(Box::new(c), Box::new(a), Box::new(b))
            }
            5 => self.builtin_expr(ty, depth),
            _ => {
                // constant index into a list literal-bound variable is not tracked here;
                // use index 0 of a non-empty list (all generated lists are non-empty)
                self.feat("expr:index");
                let (n, _) = list_vars[self.t.pick(list_vars.len())].clone();
                Expr::Index(Box::new(Expr::Var(n)), Box::new(Expr::Nat(0)))
            }
        }
    }

    /// a divisor: a literal zero is kept only occasionally (the ZeroDivisionError path is
    /// wanted, but not in every eighth program)
    fn divisor(&mut self, ty: &Ty, depth: usize) -> Expr {
        let e = self.num_operand(ty, depth);
        if matches!(e, Expr::Nat(0)) && !self.t.chance(1, 8) {
            return Expr::Nat(1 + self.t.pick(9) as u64);
        }
        e
    }

    fn is_union_rooted(&self, e: &Expr) -> bool {
        match e {
            Expr::If(..) => true,
            Expr::Var(n) => self.union_vars.contains(n),
            Expr::Index(l, _) => self.is_union_rooted(l),
            _ => false,
        }
    }

    /// a numeric operand; with `avoid_known`, never an if-expression (or a variable bound to
    /// one): known finding — a binary operation whose *left* operand has a union type is typed
    /// by that operand's class and its result is wrapped in it (`if(c, do 1, do 2) + 1.5` is 2)
    fn num_operand(&mut self, ty: &Ty, depth: usize) -> Expr {
        let e = self.expr(ty, depth + 1);
        if self.cfg.avoid_known && self.is_union_rooted(&e) {
            self.feat("excluded:union-typed-operand");
            return self.literal(ty);
        }
        e
    }

    fn op_expr(&mut self, ty: &Ty, depth: usize) -> Expr {
        let b = |op: &'static str, l: Expr, r: Expr| Expr::Bin(op, Box::new(l), Box::new(r));
        match ty {
            Ty::Nat if self.t.chance(1, 16) => {
                // a long sum: branch and loop bodies longer than 255 code units
                self.feat("expr:long-sum");
                let n = 12 + self.t.pick(30);
                let mut acc = self.atom(&Ty::Nat);
                for _ in 0..n {
                    let x = self.atom(&Ty::Nat);
                    acc = b(if self.t.pick(3) == 0 { "*" } else { "+" }, acc, x);
                }
                acc
            }
            Ty::Nat => match self.t.weighted(&[4, 3, 2, 2, 1]) {
                0 => b("+", self.num_operand(&Ty::Nat, depth), self.num_operand(&Ty::Nat, depth)),
                1 => b("*", self.num_operand(&Ty::Nat, depth), self.num_operand(&Ty::Nat, depth)),
                2 => {
                    self.feat("op:floordiv");
                    b("//", self.num_operand(&Ty::Nat, depth), self.divisor(&Ty::Nat, depth))
                }
                3 => {
                    self.feat("op:mod");
                    b("%", self.num_operand(&Ty::Nat, depth), self.divisor(&Ty::Nat, depth))
                }
                _ => {
                    self.feat("op:pow");
                    let base = Expr::Nat(self.t.pick(12) as u64);
                    b("**", base, Expr::Nat(self.t.pick(5) as u64))
                }
            },
            Ty::Int => match self.t.weighted(&[4, 4, 3, 2, 2, 2]) {
                0 => b("+", self.num_operand(&Ty::Int, depth), self.num_operand(&Ty::Int, depth)),
                1 => b("-", self.num_operand(&Ty::Int, depth), self.num_operand(&Ty::Int, depth)),
                2 => b("*", self.num_operand(&Ty::Int, depth), self.num_operand(&Ty::Int, depth)),
                3 => {
                    self.feat("op:floordiv");
                    b("//", self.num_operand(&Ty::Int, depth), self.divisor(&Ty::Int, depth))
                }
                4 => {
                    self.feat("op:mod");
                    b("%", self.num_operand(&Ty::Int, depth), self.divisor(&Ty::Int, depth))
                }
                _ => {
                    self.feat("op:unary-minus");
                    Expr::Neg(Box::new(self.num_operand(&Ty::Int, depth)))
                }
            },
            Ty::Float => {
                let op = ["+", "-", "*", "/"][self.t.pick(4)];
                if op == "/" {
                    self.feat("op:truediv");
                }
                let lt = [Ty::Float, Ty::Int, Ty::Nat][self.t.weighted(&[4, 1, 1])].clone();
                let rt = if lt == Ty::Float { [Ty::Float, Ty::Int, Ty::Nat][self.t.weighted(&[3, 1, 1])].clone() } else if op == "/" { [Ty::Float, Ty::Int, Ty::Nat][self.t.weighted(&[2, 1, 1])].clone() } else { Ty::Float };
                if lt != Ty::Float || rt != Ty::Float {
                    self.feat("op:mixed-float-int");
                }
                b(op, self.num_operand(&lt, depth), self.num_operand(&rt, depth))
            }
            Ty::Str => match self.t.weighted(&[4, 2, 2]) {
                0 => b("+", self.expr(&Ty::Str, depth + 1), self.expr(&Ty::Str, depth + 1)),
                1 => {
                    self.feat("op:str-repeat");
                    b("*", self.expr(&Ty::Str, depth + 1), Expr::Nat(self.t.pick(4) as u64))
                }
                _ => self.interp(depth),
            },
            Ty::Bool if self.t.chance(1, 12) => {
                // a long and/or chain: jump distances beyond one byte, right- or left-nested
                self.feat("expr:long-bool-chain");
                let n = 8 + self.t.pick(10);
                let op: &'static str = if self.t.pick(2) == 0 { "and" } else { "or" };
                let right = self.t.pick(2) == 0;
                let mut items: Vec<Expr> = (0..n)
                    .map(|_| {
                        let l = self.atom(&Ty::Nat);
                        let r = self.atom(&Ty::Nat);
                        let cmp = ["==", "!=", "<", "<=", ">", ">="][self.t.pick(6)];
                        b(cmp, b("+", l, Expr::Nat(self.t.pick(9) as u64)), r)
                    })
                    .collect();
                if right {
                    let mut acc = items.pop().unwrap();
                    while let Some(x) = items.pop() {
                        acc = b(op, x, acc);
                    }
                    acc
                } else {
                    let mut it = items.into_iter();
                    let mut acc = it.next().unwrap();
                    for x in it {
                        acc = b(op, acc, x);
                    }
                    acc
                }
            }
            Ty::Bool => match self.t.weighted(&[5, 2, 2, 1]) {
                0 => {
                    let ot = [Ty::Int, Ty::Nat, Ty::Float, Ty::Str][self.t.weighted(&[4, 3, 2, 2])].clone();
                    let ops: &[&'static str] = if ot == Ty::Str { &["==", "!="] } else if ot == Ty::Float { &["<", "<=", ">", ">="] } else { &["==", "!=", "<", "<=", ">", ">="] };
                    let op = ops[self.t.pick(ops.len())];
                    self.feat("op:compare");
                    b(op, self.expr(&ot, depth + 1), self.expr(&ot, depth + 1))
                }
                1 => b("and", self.expr(&Ty::Bool, depth + 1), self.expr(&Ty::Bool, depth + 1)),
                2 => b("or", self.expr(&Ty::Bool, depth + 1), self.expr(&Ty::Bool, depth + 1)),
                _ => Expr::Not(Box::new(self.expr(&Ty::Bool, depth + 1))),
            },
            Ty::List(e) => {
                if self.t.chance(1, 3) && matches!(**e, Ty::Nat | Ty::Str) {
                    // concatenation of plain literals / variables of one element class
                    self.feat("op:list-concat");
                    let l = self.atom(ty);
                    let r = self.atom(ty);
                    b("+", l, r)
                } else {
                    let n = 1 + self.t.pick(3);
                    Expr::List((0..n).map(|_| self.expr(e, depth + 1)).collect())
                }
            }
        }
    }

    fn interp(&mut self, depth: usize) -> Expr {
        if self.cfg.no_interp {
            self.feat("excluded:interpolation");
            return Expr::Str(self.str_lit());
        }
        self.feat("expr:interpolation");
        let n = 1 + self.t.pick(2);
        let mut parts = vec![];
        for _ in 0..n {
            let text = self.str_lit();
            let ty = [Ty::Nat, Ty::Int, Ty::Str, Ty::Bool][self.t.pick(4)].clone();
            // keep interpolated expressions simple: variables, literals, one operator
            let e = self.expr(&ty, self.cfg.max_depth.saturating_sub(1).max(depth + 1));
            parts.push((text, Some(e)));
        }
        parts.push((self.str_lit(), None));
        Expr::Interp(parts)
    }

    fn builtin_expr(&mut self, ty: &Ty, depth: usize) -> Expr {
        match ty {
            Ty::Nat => match self.t.pick(3) {
                0 => {
                    self.feat("builtin:len");
                    let of = if self.t.pick(2) == 0 { Ty::Str } else { Ty::List(Box::new(Ty::Nat)) };
                    Expr::Builtin("len", vec![self.expr(&of, depth + 1)])
                }
                1 => {
                    self.feat("builtin:abs");
                    Expr::Builtin("abs", vec![self.expr(&Ty::Int, depth + 1)])
                }
                _ => {
                    self.feat("builtin:len");
                    Expr::Builtin("len", vec![self.expr(&Ty::Str, depth + 1)])
                }
            },
            Ty::Int => match self.t.pick(3) {
                0 => {
                    self.feat("method:pred");
                    Expr::Method(Box::new(self.atom(&Ty::Int)), "pred", vec![])
                }
                1 => {
                    self.feat("method:succ");
                    Expr::Method(Box::new(self.atom(&Ty::Int)), "succ", vec![])
                }
                _ => {
                    self.feat("builtin:max/min");
                    let f = if self.t.pick(2) == 0 { "max" } else { "min" };
                    let a = Expr::NegInt(1 + self.t.pick(40) as u64);
                    let c = Expr::NegInt(1 + self.t.pick(40) as u64);
                    let _ = depth;
                    Expr::Builtin(f, vec![a, c])
                }
            },
            Ty::Float => {
                if self.cfg.avoid_known {
                    // known finding: abs is declared (Num) -> Nat, so abs(1.5) is truncated
                    self.feat("excluded:abs-of-float");
                    self.op_expr(ty, depth)
                } else {
                    self.feat("builtin:abs-float");
                    Expr::Builtin("abs", vec![self.expr(&Ty::Float, depth + 1)])
                }
            }
            Ty::Str => match self.t.pick(3) {
                0 => {
                    self.feat("builtin:str");
                    let of = [Ty::Nat, Ty::Int, Ty::Bool][self.t.pick(3)].clone();
                    Expr::Builtin("str", vec![self.expr(&of, depth + 1)])
                }
                1 => {
                    self.feat("method:upper/lower");
                    let m = if self.t.pick(2) == 0 { "upper" } else { "lower" };
                    Expr::Method(Box::new(self.atom(&Ty::Str)), m, vec![])
                }
                _ => self.interp(depth),
            },
            Ty::Bool => {
                self.feat("op:in");
                let et = [Ty::Nat, Ty::Str][self.t.pick(2)].clone();
                let l = self.expr(&Ty::List(Box::new(et.clone())), depth + 1);
                Expr::In(Box::new(self.expr(&et, depth + 1)), Box::new(l))
            }
            Ty::List(e) if **e == Ty::Str && !self.cfg.no_defaults => {
                self.feat("method:keyword-arg");
                let sep = [",", " ", "a", "x y"][self.t.pick(4)];
                let recv = self.atom(&Ty::Str);
                Expr::MethodKw(Box::new(recv), "split", vec![Expr::Str(sep.into())], vec![("maxsplit", Expr::Nat(self.t.pick(3) as u64))])
            }
            Ty::List(_) => self.literal(ty),
        }
    }

    /// a variable or a literal (receiver position)
    fn atom(&mut self, ty: &Ty) -> Expr {
        let vars = self.vars_of(ty);
        if !vars.is_empty() && self.t.chance(2, 3) {
            Expr::Var(vars[self.t.pick(vars.len())].clone())
        } else {
            self.literal(ty)
        }
    }

    // ---- statements ------------------------------------------------------------------

    pub fn program(&mut self) -> Program {
        let n = 2 + self.t.pick(self.cfg.max_stmts.saturating_sub(2).max(1));
        let mut stmts = self.block(n, true);
        // forward references: a function may be defined after a function that calls it
        let mut i = 0;
        while i + 1 < stmts.len() {
            let swap = match (&stmts[i], &stmts[i + 1]) {
                (Stmt::Func { name: callee, .. }, Stmt::Func { body, result, .. }) => {
                    (expr_calls(result, callee) || body.iter().any(|s| stmt_calls(s, callee))) && self.t.chance(1, 2)
                }
                _ => false,
            };
            if swap {
                self.feat("order:forward-reference");
                stmts.swap(i, i + 1);
                i += 2;
            } else {
                i += 1;
            }
        }
        // `a; b` on one line
        let mut out: Vec<Stmt> = vec![];
        for s in stmts {
            let joinable = is_one_liner(&s);
            if joinable && self.t.chance(1, 6) {
                if let Some(prev) = out.last_mut() {
                    if is_one_liner(prev) || matches!(prev, Stmt::Seq(_)) {
                        self.feat("layout:semicolon");
                        let p = std::mem::replace(prev, Stmt::Seq(vec![]));
                        let mut v = match p {
                            Stmt::Seq(v) => v,
                            other => vec![other],
                        };
                        v.push(s);
                        *prev = Stmt::Seq(v);
                        continue;
                    }
                }
            }
            out.push(s);
        }
        Program { stmts: out }
    }

    fn block(&mut self, n: usize, top: bool) -> Vec<Stmt> {
        let mut out = vec![];
        for k in 0..n {
            if self.t.exhausted() && k >= 2 {
                break;
            }
            let s = self.stmt(top);
            let is_exit = matches!(s, Stmt::Exit(_));
            out.push(s);
            if is_exit {
                break;
            }
        }
        // every binding of the block is printed at its end: all bound values are observable,
        // and a nested block (a lambda body) never ends with a definition
        let mut defined: Vec<String> = vec![];
        for s in &out {
            match s {
                Stmt::Let { name, .. } => defined.push(name.clone()),
                Stmt::PatList { names, .. } | Stmt::PatTuple { names, .. } => defined.extend(names.iter().cloned()),
                _ => {}
            }
        }
        let exit = if matches!(out.last(), Some(Stmt::Exit(_))) { out.pop() } else { None };
        if self.cfg.unused_defs {
            if !top && !matches!(out.last(), Some(Stmt::Print(_))) {
                out.push(Stmt::Print(vec![Expr::Nat(0)]));
            }
        } else if !defined.is_empty() {
            for chunk in defined.chunks(6) {
                out.push(Stmt::Print(chunk.iter().map(|n| Expr::Var(n.clone())).collect()));
            }
        } else if !top && matches!(out.last(), Some(Stmt::Lambda { .. }) | Some(Stmt::Func { .. })) {
            out.push(Stmt::Print(vec![Expr::Nat(0)]));
        }
        if let Some(e) = exit {
            out.push(e);
        }
        out
    }

    fn print_stmt(&mut self) -> Stmt {
        let n = 1 + self.t.weighted(&[5, 2, 1]);
        let mut v = vec![];
        for _ in 0..n {
            let ty = self.any_ty();
            v.push(self.expr(&ty, 0));
        }
        Stmt::Print(v)
    }

    fn effect_stmt(&mut self) -> Stmt {
        let has_proc = !self.procs.is_empty();
        match self.t.weighted(&[3, if has_proc { 4 } else { 0 }, 2, 2]) {
            0 => {
                self.feat("effect:proc-def");
                let name = format!("{}!", self.fresh("q"));
                let prints = vec![Expr::Str(format!("in {name}"))];
                let ty = self.scalar_ty();
                let result = self.literal(&ty);
                self.procs.push((name.clone(), ty));
                Stmt::ProcDef { name, prints, result }
            }
            1 => {
                self.feat("effect:unused-or-used-proc-call");
                let (p, ty) = self.procs[self.t.pick(self.procs.len())].clone();
                let name = self.fresh("u");
                self.vars.push((name.clone(), ty));
                Stmt::Let { name, ann: None, e: Expr::ProcCall(p) }
            }
            2 => {
                self.feat("effect:print-as-value");
                let name = self.fresh("u");
                let arg = Expr::Str(format!("side {name}"));
                Stmt::Let { name, ann: None, e: Expr::PrintCall(vec![arg]) }
            }
            _ => {
                self.feat("effect:block-valued-def");
                let name = self.fresh("u");
                let ty = self.scalar_ty();
                let body = vec![Stmt::Print(vec![Expr::Str(format!("block {name}"))])];
                let result = self.expr(&ty, 2);
                self.vars.push((name.clone(), ty));
                Stmt::LetBlock { name, body, result }
            }
        }
    }

    fn stmt(&mut self, top: bool) -> Stmt {
        let nested = self.loop_depth > 0 || self.in_func;
        if self.cfg.unused_defs && top && !nested && self.t.chance(1, 3) {
            return self.effect_stmt();
        }
        let w_func = if self.cfg.functions && top && !nested { 3 } else { 0 };
        let w_loop = if self.cfg.loops && self.loop_depth < 2 { 3 } else { 0 };
        let w_exit = if self.cfg.exits && top && !nested { 1 } else { 0 };
        // 0 print, 1 let, 2 function, 3 lambda, 4 for-range, 5 for-list, 6 while, 7 if!, 8 pattern, 9 assert, 10 exit
        let w_while = if self.cfg.no_while { 0 } else { w_loop / 2 };
        let w_range = if self.cfg.no_range_loops { 0 } else { w_loop };
        let w_ifs = if self.cfg.no_if_stmt { 0 } else { 2 };
        match self.t.weighted(&[6, 7, w_func, w_func, w_range, w_loop, w_while, w_ifs, 1, 1, w_exit, w_func]) {
            11 => self.func_pair(),
            0 => self.print_stmt(),
            1 => {
                let ty = self.any_ty();
                let e = self.expr(&ty, 0);
                let name = self.fresh("v");
                let ann = if self.t.chance(if self.cfg.negative_bias { 2 } else { 1 }, 3) { Some(ty.clone()) } else { None };
                if ann.is_none() && self.is_union_rooted(&e) {
                    self.union_vars.insert(name.clone());
                }
                self.vars.push((name.clone(), ty));
                Stmt::Let { name, ann, e }
            }
            2 => self.func_def(),
            3 => {
                self.feat("stmt:lambda");
                let np = 1 + self.t.pick(2);
                let saved = self.vars.clone();
                let mut params = vec![];
                for _ in 0..np {
                    let ty = self.scalar_ty();
                    let name = self.fresh("p");
                    self.vars.push((name.clone(), ty.clone()));
                    params.push((name, ty));
                }
                let ret = self.scalar_ty();
                let body = self.expr(&ret, 1);
                self.vars = saved;
                let name = self.fresh("g");
                self.funcs.push(FuncSig { name: name.clone(), params: params.iter().map(|(n, t)| Param { name: n.clone(), ty: t.clone(), default: None }).collect(), ret, is_lambda: true });
                Stmt::Lambda { name, params, body }
            }
            4 => {
                self.feat("stmt:for-range");
                let lo = self.t.pick(3) as u64;
                let hi = lo + self.t.pick(4) as u64;
                let inclusive = self.t.pick(2) == 1;
                let var = self.fresh("i");
                let saved = (self.vars.clone(), self.funcs.len());
                // the loop variable has an interval type: same known finding as union types
                self.union_vars.insert(var.clone());
                self.vars.push((var.clone(), Ty::Nat));
                self.loop_depth += 1;
                let n = 1 + self.t.pick(3);
                let body = self.block(n, false);
                self.loop_depth -= 1;
                self.vars = saved.0;
                self.funcs.truncate(saved.1);
                Stmt::ForRange { var, lo: Expr::Nat(lo), hi: Expr::Nat(hi), inclusive, body }
            }
            5 => {
                self.feat("stmt:for-list");
                let et = [Ty::Nat, Ty::Int, Ty::Str][self.t.pick(3)].clone();
                let list = self.expr(&Ty::List(Box::new(et.clone())), 2);
                let var = self.fresh("e");
                let saved = (self.vars.clone(), self.funcs.len());
                self.union_vars.insert(var.clone());
                self.vars.push((var.clone(), et));
                self.loop_depth += 1;
                let n = 1 + self.t.pick(3);
                let body = self.block(n, false);
                self.loop_depth -= 1;
                self.vars = saved.0;
                self.funcs.truncate(saved.1);
                let list_var = self.fresh("l");
                Stmt::ForList { var, list_var, list, body }
            }
            6 => {
                self.feat("stmt:while");
                let counter = self.fresh("c");
                let limit = self.t.pick(4) as u64;
                let saved = (self.vars.clone(), self.funcs.len());
                self.loop_depth += 1;
                let n = 1 + self.t.pick(2);
                let body = self.block(n, false);
                self.loop_depth -= 1;
                self.vars = saved.0;
                self.funcs.truncate(saved.1);
                Stmt::While { counter, limit, body }
            }
            7 => {
                self.feat("stmt:if");
                let cond = self.expr(&Ty::Bool, 1);
                let saved = (self.vars.clone(), self.funcs.len());
                let bump = if self.cfg.no_loops_in_if { 2 } else { 1 };
                self.loop_depth += bump; // definitions inside stay local
                let n = 1 + self.t.pick(2);
                let then = self.block(n, false);
                self.vars = saved.0.clone();
                self.funcs.truncate(saved.1);
                let els = if self.t.pick(2) == 1 {
                    let n = 1 + self.t.pick(2);
                    let b = self.block(n, false);
                    Some(b)
                } else {
                    None
                };
                self.loop_depth -= bump;
                self.vars = saved.0;
                self.funcs.truncate(saved.1);
                let cond_var = self.fresh("b");
                Stmt::IfStmt { cond_var, cond, then, els }
            }
            8 => {
                self.feat("stmt:pattern-def");
                let n = 2 + self.t.pick(2);
                if self.t.pick(2) == 0 {
                    let et = [Ty::Nat, Ty::Int, Ty::Str][self.t.pick(3)].clone();
                    let elems: Vec<Expr> = (0..n).map(|_| self.expr(&et, 2)).collect();
                    let names: Vec<String> = (0..n).map(|_| self.fresh("v")).collect();
                    let any_union = elems.iter().any(|e| self.is_union_rooted(e));
                    for nm in &names {
                        self.vars.push((nm.clone(), et.clone()));
                        // list elements are unified: every name may carry the union
                        if any_union || true {
                            self.union_vars.insert(nm.clone());
                        }
                    }
                    Stmt::PatList { names, elems }
                } else {
                    let tys: Vec<Ty> = (0..n).map(|_| self.scalar_ty()).collect();
                    let elems: Vec<Expr> = tys.iter().map(|t| self.expr(t, 2)).collect();
                    let names: Vec<String> = (0..n).map(|_| self.fresh("v")).collect();
                    for ((nm, t), e) in names.iter().zip(tys.iter()).zip(elems.iter()) {
                        self.vars.push((nm.clone(), t.clone()));
                        if self.is_union_rooted(e) {
                            self.union_vars.insert(nm.clone());
                        }
                    }
                    Stmt::PatTuple { names, elems }
                }
            }
            9 => {
                self.feat("stmt:assert");
                Stmt::Assert(self.expr(&Ty::Bool, 1))
            }
            _ => {
                self.feat("stmt:exit");
                Stmt::Exit(self.t.pick(4) as u8)
            }
        }
    }

    /// a helper function and its only user, in either order (forward reference), or a
    /// one-line helper used later on the same line
    fn func_pair(&mut self) -> Stmt {
        self.feat("stmt:function-pair");
        let h = self.fresh("h");
        let p = self.fresh("p");
        let saved = self.vars.clone();
        self.vars = vec![(p.clone(), Ty::Nat)];
        self.in_func = true;
        let hbody = self.expr(&Ty::Nat, 2);
        self.in_func = false;
        self.vars = saved;
        let helper = Stmt::Func { name: h.clone(), params: vec![Param { name: p, ty: Ty::Nat, default: None }], ret: Ty::Nat, ret_ann: self.t.pick(2) == 0, body: vec![], result: hbody };
        let arg = Expr::Nat(self.t.pick(50) as u64);
        match self.t.pick(3) {
            0 => {
                // same line: `h(p: Nat) = ...; print! h(3)`
                self.feat("layout:semicolon");
                Stmt::Seq(vec![helper, Stmt::Print(vec![Expr::Call(h, vec![arg], vec![])])])
            }
            k => {
                let f = self.fresh("f");
                let user = Stmt::Func {
                    name: f.clone(),
                    params: vec![],
                    ret: Ty::Nat,
                    ret_ann: false,
                    body: vec![],
                    result: Expr::Bin("+", Box::new(Expr::Call(h, vec![arg], vec![])), Box::new(Expr::Nat(1))),
                };
                let call = Stmt::Print(vec![Expr::Call(f, vec![], vec![])]);
                if k == 1 {
                    Stmt::Group(vec![helper, user, call])
                } else {
                    self.feat("order:forward-reference");
                    Stmt::Group(vec![user, helper, call])
                }
            }
        }
    }

    fn func_def(&mut self) -> Stmt {
        self.feat("stmt:function");
        let np = self.t.pick(4);
        let saved_vars = self.vars.clone();
        let saved_funcs = self.funcs.len();
        // functions are pure: they see only their parameters (and earlier functions)
        self.vars.clear();
        let mut params = vec![];
        let mut seen_default = false;
        for _ in 0..np {
            let ty = self.scalar_ty();
            let name = self.fresh("p");
            let default = if !self.cfg.no_defaults && (seen_default || self.t.chance(1, 4)) {
                seen_default = true;
                self.feat("func:default-param");
                Some(self.literal(&ty))
            } else {
                None
            };
            params.push(Param { name: name.clone(), ty: ty.clone(), default });
            self.vars.push((name, ty));
        }
        let ret = self.scalar_ty();
        self.in_func = true;
        let nb = self.t.pick(3);
        let mut body = vec![];
        for _ in 0..nb {
            // local bindings only
            let ty = self.scalar_ty();
            let e = self.expr(&ty, 1);
            let name = self.fresh("t");
            if self.is_union_rooted(&e) {
                self.union_vars.insert(name.clone());
            }
            self.vars.push((name.clone(), ty));
            body.push(Stmt::Let { name, ann: None, e });
        }
        let result = self.expr(&ret, 1);
        self.in_func = false;
        self.vars = saved_vars;
        self.funcs.truncate(saved_funcs);
        let name = self.fresh("f");
        let ret_ann = self.t.chance(2, 3);
        self.funcs.push(FuncSig { name: name.clone(), params: params.clone(), ret: ret.clone(), is_lambda: false });
        Stmt::Func { name, params, ret, ret_ann, body, result }
    }
}

fn is_one_liner(s: &Stmt) -> bool {
    match s {
        Stmt::Let { .. } | Stmt::Print(_) | Stmt::Lambda { .. } | Stmt::Assert(_) | Stmt::PatList { .. } | Stmt::PatTuple { .. } => true,
        Stmt::Func { body, .. } => body.is_empty(),
        _ => false,
    }
}

fn expr_calls(e: &Expr, name: &str) -> bool {
    match e {
        Expr::Call(f, pos, kw) => f == name || pos.iter().any(|x| expr_calls(x, name)) || kw.iter().any(|(_, x)| expr_calls(x, name)),
        Expr::Bin(_, l, r) | Expr::Index(l, r) | Expr::In(l, r) => expr_calls(l, name) || expr_calls(r, name),
        Expr::Not(x) | Expr::Neg(x) | Expr::Ascribe(x, _) => expr_calls(x, name),
        Expr::Builtin(_, a) | Expr::List(a) | Expr::PrintCall(a) => a.iter().any(|x| expr_calls(x, name)),
        Expr::CallSpread(f, a, b) => f == name || a.iter().chain(b.iter()).any(|x| expr_calls(x, name)),
        Expr::MethodKw(r, _, a, kw) => expr_calls(r, name) || a.iter().any(|x| expr_calls(x, name)) || kw.iter().any(|(_, x)| expr_calls(x, name)),
        Expr::Method(r, _, a) => expr_calls(r, name) || a.iter().any(|x| expr_calls(x, name)),
        Expr::If(c, a, b) => expr_calls(c, name) || expr_calls(a, name) || expr_calls(b, name),
        Expr::Interp(parts) => parts.iter().any(|(_, e)| e.as_ref().map(|x| expr_calls(x, name)).unwrap_or(false)),
        _ => false,
    }
}

fn stmt_calls(s: &Stmt, name: &str) -> bool {
    match s {
        Stmt::Let { e, .. } => expr_calls(e, name),
        _ => false,
    }
}

// ------------------------------------------------------------------------------------------
// printers

pub fn erg_str_lit(s: &str) -> String {
    let mut o = String::from("\"");
    for ch in s.chars() {
        match ch {
            '"' => o.push_str("\\\""),
            '\\' => o.push_str("\\\\"),
            '\n' => o.push_str("\\n"),
            '\t' => o.push_str("\\t"),
            '\r' => o.push_str("\\r"),
            '\0' => o.push_str("\\0"),
            '{' => o.push('{'),
            c => o.push(c),
        }
    }
    o.push('"');
    o
}

pub fn py_str_lit(s: &str) -> String {
    let mut o = String::from("\"");
    for ch in s.chars() {
        match ch {
            '"' => o.push_str("\\\""),
            '\\' => o.push_str("\\\\"),
            '\n' => o.push_str("\\n"),
            // the documented meaning of `\t` in an Erg string literal is four spaces
            '\t' => o.push_str("    "),
            '\r' => o.push_str("\\r"),
            '\0' => o.push_str("\\x00"),
            c => o.push(c),
        }
    }
    o.push('"');
    o
}

pub fn erg_expr(e: &Expr) -> String {
    match e {
        Expr::Nat(n) => n.to_string(),
        Expr::NegInt(n) => format!("(-{n})"),
        Expr::Float(s, neg) => if *neg { format!("(-{s})") } else { s.clone() },
        Expr::Str(s) => erg_str_lit(s),
        Expr::Bool(b) => if *b { "True".into() } else { "False".into() },
        Expr::Var(n) => n.clone(),
        Expr::Bin(op, l, r) => format!("({} {} {})", erg_expr(l), op, erg_expr(r)),
        Expr::Not(x) => format!("not({})", erg_expr(x)),
        Expr::Neg(x) => format!("(-({}))", erg_expr(x)),
        Expr::Call(f, pos, kw) => {
            let mut a: Vec<String> = pos.iter().map(erg_expr).collect();
            a.extend(kw.iter().map(|(k, v)| format!("{k} := {}", erg_expr(v))));
            format!("{f}({})", a.join(", "))
        }
        Expr::Builtin(f, args) => format!("{f}({})", args.iter().map(erg_expr).collect::<Vec<_>>().join(", ")),
        Expr::Method(r, m, args) => format!("({}).{m}({})", erg_expr(r), args.iter().map(erg_expr).collect::<Vec<_>>().join(", ")),
        // call syntax: `if (c), ...` would read `(c)` as the whole argument list
        Expr::If(c, a, b) => format!("if({}, do {}, do {})", erg_expr(c), erg_expr(a), erg_expr(b)),
        Expr::List(v) => format!("[{}]", v.iter().map(erg_expr).collect::<Vec<_>>().join(", ")),
        Expr::Index(l, i) => format!("{}[{}]", erg_expr(l), erg_expr(i)),
        Expr::In(x, l) => format!("({} in {})", erg_expr(x), erg_expr(l)),
        Expr::Interp(parts) => {
            let mut o = String::from("\"");
            for (text, e) in parts {
                let lit = erg_str_lit(text);
                o.push_str(&lit[1..lit.len() - 1]);
                if let Some(e) = e {
                    o.push_str(&format!("\\{{{}}}", erg_expr(e)));
                }
            }
            o.push('"');
            o
        }
        Expr::Ascribe(e, t) => format!("({}: {})", erg_expr(e), t.erg()),
        Expr::ProcCall(p) => format!("{p}()"),
        Expr::CallSpread(f, pos, spread) => {
            let mut a: Vec<String> = pos.iter().map(erg_expr).collect();
            a.push(format!("*[{}]", spread.iter().map(erg_expr).collect::<Vec<_>>().join(", ")));
            format!("{f}({})", a.join(", "))
        }
        Expr::MethodKw(r, m, pos, kw) => {
            let mut a: Vec<String> = pos.iter().map(erg_expr).collect();
            a.extend(kw.iter().map(|(k, v)| format!("{k} := {}", erg_expr(v))));
            format!("({}).{m}({})", erg_expr(r), a.join(", "))
        }
        Expr::PrintCall(args) => format!("print! {}", args.iter().map(erg_expr).collect::<Vec<_>>().join(", ")),
    }
}

pub fn py_expr(e: &Expr) -> String {
    match e {
        Expr::Nat(n) => n.to_string(),
        Expr::NegInt(n) => format!("(-{n})"),
        Expr::Float(s, neg) => if *neg { format!("(-{s})") } else { s.clone() },
        Expr::Str(s) => py_str_lit(s),
        Expr::Bool(b) => if *b { "True".into() } else { "False".into() },
        Expr::Var(n) => n.clone(),
        Expr::Bin(op, l, r) => format!("({} {} {})", py_expr(l), op, py_expr(r)),
        Expr::Not(x) => format!("(not {})", py_expr(x)),
        Expr::Neg(x) => format!("(-({}))", py_expr(x)),
        Expr::Call(f, pos, kw) => {
            let mut a: Vec<String> = pos.iter().map(py_expr).collect();
            a.extend(kw.iter().map(|(k, v)| format!("{k}={}", py_expr(v))));
            format!("{f}({})", a.join(", "))
        }
        Expr::Builtin(f, args) => format!("{f}({})", args.iter().map(py_expr).collect::<Vec<_>>().join(", ")),
        Expr::Method(r, m, args) => {
            let recv = py_expr(r);
            match *m {
                "succ" => format!("(({recv}) + 1)"),
                "pred" => format!("(({recv}) - 1)"),
                _ => format!("({recv}).{m}({})", args.iter().map(py_expr).collect::<Vec<_>>().join(", ")),
            }
        }
        Expr::If(c, a, b) => format!("({} if {} else {})", py_expr(a), py_expr(c), py_expr(b)),
        Expr::List(v) => format!("[{}]", v.iter().map(py_expr).collect::<Vec<_>>().join(", ")),
        Expr::Index(l, i) => format!("{}[{}]", py_expr(l), py_expr(i)),
        Expr::In(x, l) => format!("({} in {})", py_expr(x), py_expr(l)),
        Expr::Interp(parts) => {
            let mut items = vec![];
            for (text, e) in parts {
                if !text.is_empty() {
                    items.push(py_str_lit(text));
                }
                if let Some(e) = e {
                    items.push(format!("str({})", py_expr(e)));
                }
            }
            if items.is_empty() {
                "\"\"".into()
            } else {
                format!("({})", items.join(" + "))
            }
        }
        Expr::Ascribe(e, _) => py_expr(e),
        Expr::ProcCall(p) => format!("{}()", p.trim_end_matches('!')),
        Expr::CallSpread(f, pos, spread) => {
            let mut a: Vec<String> = pos.iter().map(py_expr).collect();
            a.push(format!("*[{}]", spread.iter().map(py_expr).collect::<Vec<_>>().join(", ")));
            format!("{f}({})", a.join(", "))
        }
        Expr::MethodKw(r, m, pos, kw) => {
            let mut a: Vec<String> = pos.iter().map(py_expr).collect();
            a.extend(kw.iter().map(|(k, v)| format!("{k}={}", py_expr(v))));
            format!("({}).{m}({})", py_expr(r), a.join(", "))
        }
        Expr::PrintCall(args) => format!("print({})", args.iter().map(py_expr).collect::<Vec<_>>().join(", ")),
    }
}

fn ind(n: usize) -> String {
    "    ".repeat(n)
}

fn erg_block(stmts: &[Stmt], level: usize, out: &mut String) {
    for s in stmts {
        erg_stmt(s, level, out);
    }
}

pub fn erg_stmt(s: &Stmt, level: usize, out: &mut String) {
    let i = ind(level);
    match s {
        Stmt::Let { name, ann, e } => match ann {
            Some(t) => out.push_str(&format!("{i}{name}: {} = {}\n", t.erg(), erg_expr(e))),
            None => out.push_str(&format!("{i}{name} = {}\n", erg_expr(e))),
        },
        Stmt::Print(v) => {
            let args = v.iter().map(erg_expr).collect::<Vec<_>>().join(", ");
            // `print! (a), b` would read `(a)` as the whole argument list
            if args.starts_with('(') {
                out.push_str(&format!("{i}print!({args})\n"));
            } else {
                out.push_str(&format!("{i}print! {args}\n"));
            }
        }
        Stmt::Func { name, params, ret, ret_ann, body, result } => {
            let ps: Vec<String> = params
                .iter()
                .map(|p| match &p.default {
                    Some(d) => format!("{}: {} := {}", p.name, p.ty.erg(), erg_expr(d)),
                    None => format!("{}: {}", p.name, p.ty.erg()),
                })
                .collect();
            let r = if *ret_ann { format!(": {}", ret.erg()) } else { String::new() };
            if body.is_empty() && !params.is_empty() {
                out.push_str(&format!("{i}{name}({}){r} = {}\n", ps.join(", "), erg_expr(result)));
            } else {
                out.push_str(&format!("{i}{name}({}){r} =\n", ps.join(", ")));
                erg_block(body, level + 1, out);
                out.push_str(&format!("{}{}\n", ind(level + 1), erg_expr(result)));
            }
        }
        Stmt::Group(v) => erg_block(v, level, out),
        Stmt::Seq(v) => {
            let mut parts = vec![];
            for s in v {
                let mut one = String::new();
                erg_stmt(s, 0, &mut one);
                parts.push(one.trim_end().to_string());
            }
            out.push_str(&format!("{i}{}\n", parts.join("; ")));
        }
        Stmt::Lambda { name, params, body } => {
            let ps: Vec<String> = params.iter().map(|(n, t)| format!("{n}: {}", t.erg())).collect();
            out.push_str(&format!("{i}{name} = ({}) -> {}\n", ps.join(", "), erg_expr(body)));
        }
        Stmt::ForRange { var, lo, hi, inclusive, body } => {
            let op = if *inclusive { ".." } else { "..<" };
            out.push_str(&format!("{i}for! {}{op}{}, {var} =>\n", erg_expr(lo), erg_expr(hi)));
            erg_block(body, level + 1, out);
        }
        Stmt::ForList { var, list_var, list, body } => {
            out.push_str(&format!("{i}{list_var} = {}\n", erg_expr(list)));
            out.push_str(&format!("{i}for! {list_var}, {var} =>\n"));
            erg_block(body, level + 1, out);
        }
        Stmt::While { counter, limit, body } => {
            out.push_str(&format!("{i}{counter} = !0\n"));
            out.push_str(&format!("{i}while! do! {counter} < {limit}, do!:\n"));
            erg_block(body, level + 1, out);
            out.push_str(&format!("{}{counter}.inc!()\n", ind(level + 1)));
        }
        Stmt::IfStmt { cond_var, cond, then, els } => {
            out.push_str(&format!("{i}{cond_var} = {}\n", erg_expr(cond)));
            out.push_str(&format!("{i}if! {cond_var}:\n"));
            out.push_str(&format!("{}do!:\n", ind(level + 1)));
            erg_block(then, level + 2, out);
            if let Some(e) = els {
                out.push_str(&format!("{}do!:\n", ind(level + 1)));
                erg_block(e, level + 2, out);
            }
        }
        Stmt::PatList { names, elems } => {
            out.push_str(&format!("{i}[{}] = [{}]\n", names.join(", "), elems.iter().map(erg_expr).collect::<Vec<_>>().join(", ")));
        }
        Stmt::PatTuple { names, elems } => {
            out.push_str(&format!("{i}({}) = ({})\n", names.join(", "), elems.iter().map(erg_expr).collect::<Vec<_>>().join(", ")));
        }
        Stmt::Assert(e) => out.push_str(&format!("{i}assert {}\n", erg_expr(e))),
        Stmt::Exit(n) => out.push_str(&format!("{i}exit {n}\n")),
        Stmt::ProcDef { name, prints, result } => {
            out.push_str(&format!("{i}{name}() =\n"));
            out.push_str(&format!("{}print! {}\n", ind(level + 1), prints.iter().map(erg_expr).collect::<Vec<_>>().join(", ")));
            out.push_str(&format!("{}{}\n", ind(level + 1), erg_expr(result)));
        }
        Stmt::LetBlock { name, body, result } => {
            out.push_str(&format!("{i}{name} =\n"));
            erg_block(body, level + 1, out);
            out.push_str(&format!("{}{}\n", ind(level + 1), erg_expr(result)));
        }
    }
}

fn py_block(stmts: &[Stmt], level: usize, out: &mut String) {
    if stmts.is_empty() {
        out.push_str(&format!("{}pass\n", ind(level)));
    }
    for s in stmts {
        py_stmt(s, level, out);
    }
}

pub fn py_stmt(s: &Stmt, level: usize, out: &mut String) {
    let i = ind(level);
    match s {
        Stmt::Let { name, e, .. } => out.push_str(&format!("{i}{name} = {}\n", py_expr(e))),
        Stmt::Seq(v) | Stmt::Group(v) => {
            for s in v {
                py_stmt(s, level, out);
            }
        }
        Stmt::Print(v) => out.push_str(&format!("{i}print({})\n", v.iter().map(py_expr).collect::<Vec<_>>().join(", "))),
        Stmt::Func { name, params, body, result, .. } => {
            let ps: Vec<String> = params
                .iter()
                .map(|p| match &p.default {
                    Some(d) => format!("{}={}", p.name, py_expr(d)),
                    None => p.name.clone(),
                })
                .collect();
            out.push_str(&format!("{i}def {name}({}):\n", ps.join(", ")));
            for b in body {
                py_stmt(b, level + 1, out);
            }
            out.push_str(&format!("{}return {}\n", ind(level + 1), py_expr(result)));
        }
        Stmt::Lambda { name, params, body } => {
            let ps: Vec<String> = params.iter().map(|(n, _)| n.clone()).collect();
            out.push_str(&format!("{i}{name} = lambda {}: {}\n", ps.join(", "), py_expr(body)));
        }
        Stmt::ForRange { var, lo, hi, inclusive, body } => {
            let hi_s = if *inclusive { format!("({}) + 1", py_expr(hi)) } else { py_expr(hi) };
            out.push_str(&format!("{i}for {var} in range({}, {hi_s}):\n", py_expr(lo)));
            py_block(body, level + 1, out);
        }
        Stmt::ForList { var, list_var, list, body } => {
            out.push_str(&format!("{i}{list_var} = {}\n", py_expr(list)));
            out.push_str(&format!("{i}for {var} in {list_var}:\n"));
            py_block(body, level + 1, out);
        }
        Stmt::While { counter, limit, body } => {
            out.push_str(&format!("{i}{counter} = 0\n{i}while {counter} < {limit}:\n"));
            for b in body {
                py_stmt(b, level + 1, out);
            }
            out.push_str(&format!("{}{counter} += 1\n", ind(level + 1)));
        }
        Stmt::IfStmt { cond_var, cond, then, els } => {
            out.push_str(&format!("{i}{cond_var} = {}\n", py_expr(cond)));
            out.push_str(&format!("{i}if {cond_var}:\n"));
            py_block(then, level + 1, out);
            if let Some(e) = els {
                out.push_str(&format!("{i}else:\n"));
                py_block(e, level + 1, out);
            }
        }
        Stmt::PatList { names, elems } => {
            out.push_str(&format!("{i}[{}] = [{}]\n", names.join(", "), elems.iter().map(py_expr).collect::<Vec<_>>().join(", ")));
        }
        Stmt::PatTuple { names, elems } => {
            out.push_str(&format!("{i}({},) = ({},)\n", names.join(", "), elems.iter().map(py_expr).collect::<Vec<_>>().join(", ")));
        }
        Stmt::Assert(e) => out.push_str(&format!("{i}assert {}\n", py_expr(e))),
        Stmt::Exit(n) => out.push_str(&format!("{i}raise SystemExit({n})\n")),
        Stmt::ProcDef { name, prints, result } => {
            out.push_str(&format!("{i}def {}():\n", name.trim_end_matches('!')));
            out.push_str(&format!("{}print({})\n", ind(level + 1), prints.iter().map(py_expr).collect::<Vec<_>>().join(", ")));
            out.push_str(&format!("{}return {}\n", ind(level + 1), py_expr(result)));
        }
        Stmt::LetBlock { name, body, result } => {
            for b in body {
                py_stmt(b, level, out);
            }
            out.push_str(&format!("{i}{name} = {}\n", py_expr(result)));
        }
    }
}

impl Program {
    pub fn to_erg(&self) -> String {
        let mut s = String::new();
        erg_block(&self.stmts, 0, &mut s);
        s
    }
    pub fn to_python(&self) -> String {
        let mut s = String::new();
        for st in &self.stmts {
            py_stmt(st, 0, &mut s);
        }
        s
    }
    pub fn count_prints(&self) -> usize {
        fn c(stmts: &[Stmt]) -> usize {
            stmts
                .iter()
                .map(|s| match s {
                    Stmt::Print(_) => 1,
                    Stmt::Seq(v) | Stmt::Group(v) => c(v),
                    Stmt::ForRange { body, .. } | Stmt::ForList { body, .. } | Stmt::While { body, .. } => c(body),
                    Stmt::IfStmt { then, els, .. } => c(then) + els.as_ref().map(|e| c(e)).unwrap_or(0),
                    _ => 0,
                })
                .sum()
        }
        c(&self.stmts)
    }
}

/// proptest strategy for the tape
pub fn tape_strategy(max_len: usize) -> proptest::strategy::BoxedStrategy<Vec<u32>> {
    use proptest::prelude::*;
    proptest::collection::vec(any::<u32>(), 8..max_len).boxed()
}

// ------------------------------------------------------------------------------------------
// expression positions (C05, C24): pre-order walk over every expression node of a program

fn walk_expr(e: &mut Expr, depth: usize, f: &mut dyn FnMut(&mut Expr, usize) -> bool) -> bool {
    if f(e, depth) {
        return true;
    }
    match e {
        Expr::Bin(_, l, r) | Expr::Index(l, r) | Expr::In(l, r) => walk_expr(l, depth + 1, f) || walk_expr(r, depth + 1, f),
        Expr::Not(x) | Expr::Neg(x) | Expr::Ascribe(x, _) => walk_expr(x, depth + 1, f),
        Expr::Call(_, pos, kw) => pos.iter_mut().any(|x| walk_expr(x, depth + 1, f)) || kw.iter_mut().any(|(_, x)| walk_expr(x, depth + 1, f)),
        Expr::CallSpread(_, a, b) => a.iter_mut().any(|x| walk_expr(x, depth + 1, f)) || b.iter_mut().any(|x| walk_expr(x, depth + 1, f)),
        Expr::Builtin(_, a) | Expr::List(a) | Expr::PrintCall(a) => a.iter_mut().any(|x| walk_expr(x, depth + 1, f)),
        Expr::Method(r, _, a) => walk_expr(r, depth + 1, f) || a.iter_mut().any(|x| walk_expr(x, depth + 1, f)),
        Expr::MethodKw(r, _, a, kw) => walk_expr(r, depth + 1, f) || a.iter_mut().any(|x| walk_expr(x, depth + 1, f)) || kw.iter_mut().any(|(_, x)| walk_expr(x, depth + 1, f)),
        Expr::If(c, a, b) => walk_expr(c, depth + 1, f) || walk_expr(a, depth + 1, f) || walk_expr(b, depth + 1, f),
        Expr::Interp(parts) => parts.iter_mut().any(|(_, e)| e.as_mut().map(|x| walk_expr(x, depth + 1, f)).unwrap_or(false)),
        _ => false,
    }
}

fn walk_stmts(stmts: &mut [Stmt], depth: usize, f: &mut dyn FnMut(&mut Expr, usize) -> bool) -> bool {
    for s in stmts.iter_mut() {
        let hit = match s {
            Stmt::Let { e, .. } => walk_expr(e, depth, f),
            Stmt::Print(v) => v.iter_mut().any(|x| walk_expr(x, depth, f)),
            Stmt::Func { params, body, result, .. } => {
                params.iter_mut().any(|p| p.default.as_mut().map(|d| walk_expr(d, depth + 1, f)).unwrap_or(false)) || walk_stmts(body, depth + 1, f) || walk_expr(result, depth + 1, f)
            }
            Stmt::Lambda { body, .. } => walk_expr(body, depth + 1, f),
            Stmt::ForRange { body, .. } => walk_stmts(body, depth + 1, f),
            Stmt::ForList { list, body, .. } => walk_expr(list, depth, f) || walk_stmts(body, depth + 1, f),
            Stmt::While { body, .. } => walk_stmts(body, depth + 1, f),
            Stmt::IfStmt { cond, then, els, .. } => walk_expr(cond, depth, f) || walk_stmts(then, depth + 1, f) || els.as_mut().map(|e| walk_stmts(e, depth + 1, f)).unwrap_or(false),
            Stmt::PatList { elems, .. } | Stmt::PatTuple { elems, .. } => elems.iter_mut().any(|x| walk_expr(x, depth, f)),
            Stmt::Assert(e) => walk_expr(e, depth, f),
            Stmt::ProcDef { prints, result, .. } => prints.iter_mut().any(|x| walk_expr(x, depth + 1, f)) || walk_expr(result, depth + 1, f),
            Stmt::LetBlock { body, result, .. } => walk_stmts(body, depth + 1, f) || walk_expr(result, depth + 1, f),
            Stmt::Seq(v) | Stmt::Group(v) => walk_stmts(v, depth, f),
            Stmt::Exit(_) => false,
        };
        if hit {
            return true;
        }
    }
    false
}

impl Program {
    pub fn count_exprs(&mut self) -> usize {
        let mut n = 0;
        walk_stmts(&mut self.stmts, 0, &mut |_, _| {
            n += 1;
            false
        });
        n
    }
    /// replaces the `k`-th expression node (pre-order) by `new`; returns its nesting depth
    pub fn replace_expr(&mut self, k: usize, new: Expr) -> Option<usize> {
        let mut n = 0;
        let mut at = None;
        let mut new = Some(new);
        walk_stmts(&mut self.stmts, 0, &mut |e, d| {
            if n == k {
                *e = new.take().unwrap();
                at = Some(d);
                return true;
            }
            n += 1;
            false
        });
        at
    }
}

/// an expression given verbatim in both languages (C05 injections)
pub fn raw(erg: &str) -> Expr {
    Expr::Var(erg.to_string())
}
