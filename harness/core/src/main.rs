//! vcheck: all drivers that do not need the language server.
//! usage: vcheck <Cxx> [--tier quick|thorough] [--replay FILE] [--worker] [--strict]
mod ergx;
mod gen;
mod progrun;
mod projgen;
mod props;

use vkit::engine::{drive_main, parse_args};

fn main() {
    let argv: Vec<String> = std::env::args().collect();
    if argv.len() < 2 {
        eprintln!("usage: vcheck <property-id> [--tier quick|thorough] [--replay FILE]");
        std::process::exit(2);
    }
    let id = argv[1].clone();
    let args = parse_args(&argv[2..]);
    // erg uses deep recursion: run everything on a thread with the product's stack size
    let h = std::thread::Builder::new()
        .stack_size(props::STACK_SIZE)
        .spawn(move || props::dispatch(&id, &args))
        .unwrap();
    let code = h.join().unwrap_or(2);
    std::process::exit(code);
}
