//! C25 (client side) — the Rust REPL client's framing through the verif hook.
use proptest::prelude::*;
use serde::{Deserialize, Serialize};
use serde_json::json;
use std::io::{Read, Write};
use vkit::engine::{Outcome, Property, Tier};

pub struct C25rs;

#[derive(Serialize, Deserialize, Clone, Debug)]
pub struct Case {
    /// marks the replay file as belonging to the Rust driver
    #[serde(default)]
    pub rust: bool,
    /// (instruction, payload length, fill byte)
    #[serde(default, deserialize_with = "lenient_msgs")]
    pub msgs: Vec<(u8, u32, u8)>,
    /// read chunk sizes, cycled
    #[serde(default)]
    pub chunks: Vec<u32>,
}

/// replay files of the Python side share the property id: their `msgs` have another shape
fn lenient_msgs<'de, D: serde::Deserializer<'de>>(d: D) -> Result<Vec<(u8, u32, u8)>, D::Error> {
    let v = serde_json::Value::deserialize(d)?;
    Ok(serde_json::from_value(v).unwrap_or_default())
}

struct Chunked {
    data: Vec<u8>,
    pos: usize,
    chunks: Vec<u32>,
    k: usize,
}
impl Read for Chunked {
    fn read(&mut self, buf: &mut [u8]) -> std::io::Result<usize> {
        if self.pos >= self.data.len() || buf.is_empty() {
            return Ok(0);
        }
        let want = if self.chunks.is_empty() { buf.len() } else { (self.chunks[self.k % self.chunks.len()] as usize).max(1) };
        self.k += 1;
        let n = want.min(buf.len()).min(self.data.len() - self.pos);
        buf[..n].copy_from_slice(&self.data[self.pos..self.pos + n]);
        self.pos += n;
        Ok(n)
    }
}
impl Write for Chunked {
    fn write(&mut self, buf: &[u8]) -> std::io::Result<usize> {
        Ok(buf.len())
    }
    fn flush(&mut self) -> std::io::Result<()> {
        Ok(())
    }
}

impl Property for C25rs {
    type Case = Case;
    fn id(&self) -> &'static str {
        "C25"
    }
    fn rule(&self) -> String {
        "client side: 1-5 messages (instruction 1-6, payload 0-200 000 bytes incl. 65534/65535/65536) written by MessageStream::send_msg and read back by MessageStream::recv_msg through a reader returning generated chunk sizes (down to 1 byte); the decoded sequence must equal the sent one".into()
    }
    fn strategy(&self, _tier: Tier) -> BoxedStrategy<Case> {
        let len = prop_oneof![4 => 0u32..300, 2 => 0u32..70_000, 1 => proptest::sample::select(vec![65_534u32, 65_535, 65_536, 100_000, 200_000])];
        (proptest::collection::vec((1u8..7, len, any::<u8>()), 1..6), prop_oneof![proptest::collection::vec(1u32..70_000, 0..6), proptest::collection::vec(1u32..4, 1..4)])
            .prop_map(|(msgs, chunks)| Case { rust: true, msgs, chunks })
            .boxed()
    }
    fn cases(&self, tier: Tier) -> usize {
        tier.pick(1_500, 40_000)
    }
    fn render(&self, case: &Case) -> serde_json::Value {
        json!({"messages (instruction, payload bytes, fill)": case.msgs, "read chunk sizes": case.chunks})
    }
    fn run(&self, case: &Case) -> Outcome {
        if !case.rust {
            return Outcome::pass(false).class("python-side-replay-skipped");
        }
        let mut wire = vec![];
        for (inst, len, fill) in &case.msgs {
            let data = if *len == 0 { None } else { Some(vec![*fill; *len as usize]) };
            wire.extend(erg::verif_framing::encode(*inst, data));
        }
        let big = case.msgs.iter().any(|m| m.1 > 65_535);
        let split_header = case.chunks.iter().any(|c| *c < 3);
        let reader = Chunked { data: wire, pos: 0, chunks: case.chunks.clone(), k: 0 };
        let got = erg::verif_framing::decode(reader, case.msgs.len());
        for (k, (inst, len, fill)) in case.msgs.iter().enumerate() {
            match got.get(k) {
                Some(Ok((i, d))) if i == inst && d.len() == *len as usize && d.iter().all(|b| b == fill) => {}
                other => {
                    let what = if *len > 65_535 || case.msgs[..k].iter().any(|m| m.1 > 65_535) {
                        "client framing loses synchronisation after a payload longer than 65535 bytes (16-bit size field, full payload sent)".to_string()
                    } else {
                        "client recv_msg decodes a different message than send_msg wrote".to_string()
                    };
                    return Outcome::fail(
                        what,
                        json!({"message_index": k, "sent": [inst, len], "got": other.map(|r| match r { Ok((i, d)) => format!("inst {i}, {} bytes", d.len()), Err(e) => format!("error: {e}") })}),
                    );
                }
            }
        }
        Outcome::pass(big || split_header).class(if case.chunks.is_empty() { "unchunked" } else { "chunked" })
    }
}
