//! C11 — operator expressions parse by the documented precedence table.
use erg_parser::ast::{Accessor, Expr as AExpr};
use erg_common::traits::Stream;
use erg_parser::parse::Parsable;
use erg_parser::Parser;
use proptest::prelude::*;
use serde::{Deserialize, Serialize};
use serde_json::json;
use vkit::engine::{Outcome, Property, Tier};
use vkit::util::idx;

pub struct C11;

/// (text, precedence) — copied from the property statement, NOT from erg's token.rs
const BINOPS: &[(&str, u32)] = &[
    ("**", 190),
    ("*", 170),
    ("/", 170),
    ("//", 170),
    ("%", 170),
    ("+", 160),
    ("-", 160),
    ("<<", 150),
    (">>", 150),
    ("&&", 140),
    ("^^", 130),
    ("||", 120),
    ("..", 100),
    ("<..", 100),
    ("..<", 100),
    ("<..<", 100),
    ("<", 90),
    (">", 90),
    ("<=", 90),
    (">=", 90),
    ("==", 90),
    ("!=", 90),
    ("in", 90),
    ("notin", 90),
    ("and", 80),
    ("or", 70),
];
const PREFIX_PREC: u32 = 180;
const PREFIX: &[&str] = &["-", "+", "~"];
const IDENTS: &[&str] = &["a", "b", "c", "x", "y", "zz"];
const NUMS: &[&str] = &["0", "1", "2", "10", "0.5", "3"];
const ATTRS: &[&str] = &["m", "n", "p"];
const FUNCS: &[&str] = &["f", "g"];

#[derive(Serialize, Deserialize, Clone, Debug)]
pub enum Primary {
    Ident(u32),
    Num(u32),
    /// `-3`: a minus sign directly before a numeric literal
    NegNum(u32),
    Paren(Box<Chain>),
    Call(u32, Vec<Chain>),
}

#[derive(Serialize, Deserialize, Clone, Debug)]
pub enum Postfix {
    Attr(u32),
    Method(u32, Vec<Chain>),
}

#[derive(Serialize, Deserialize, Clone, Debug)]
pub struct Operand {
    /// prefix operators, outermost first; bool = followed by a space
    pub prefix: Vec<(u32, bool)>,
    pub primary: Primary,
    pub postfix: Vec<Postfix>,
}

/// spacing: 0 = `a + b`, 1 = `a+b`, 2 = `a+ b`
#[derive(Serialize, Deserialize, Clone, Debug)]
pub struct Chain {
    pub first: Operand,
    pub rest: Vec<(u32, u8, Operand)>,
}

// ---- tokens and reference parser --------------------------------------------------------

#[derive(Clone, Debug, PartialEq)]
enum Tok {
    Ident(String),
    Num(String),
    Bin(usize),
    Pre(usize),
    LParen,
    RParen,
    Dot,
    Comma,
}

struct Printer {
    toks: Vec<Tok>,
    text: String,
}

impl Printer {
    fn operand(&mut self, o: &Operand) {
        let n = o.prefix.len();
        for (k, (p, sp)) in o.prefix.iter().enumerate() {
            let pi = idx(*p, PREFIX.len());
            let mut space = *sp;
            let last = k + 1 == n;
            // `-3` is a literal: a generated prefix minus directly before a digit must not glue
            if last && PREFIX[pi] == "-" && matches!(o.primary, Primary::Num(_)) {
                space = true;
            }
            // `+ +x` / `- -x`: never glue two sign characters into another token
            self.toks.push(Tok::Pre(pi));
            self.text.push_str(PREFIX[pi]);
            if space {
                self.text.push(' ');
            }
        }
        match &o.primary {
            Primary::Ident(i) => {
                let s = IDENTS[idx(*i, IDENTS.len())];
                self.toks.push(Tok::Ident(s.into()));
                self.text.push_str(s);
            }
            Primary::Num(i) => {
                let s = NUMS[idx(*i, NUMS.len())];
                self.toks.push(Tok::Num(s.into()));
                self.text.push_str(s);
            }
            Primary::NegNum(i) => {
                let s = format!("-{}", NUMS[idx(*i, NUMS.len())]);
                self.toks.push(Tok::Num(s.clone()));
                self.text.push_str(&s);
            }
            Primary::Paren(c) => {
                self.toks.push(Tok::LParen);
                self.text.push('(');
                self.chain(c);
                self.toks.push(Tok::RParen);
                self.text.push(')');
            }
            Primary::Call(f, args) => {
                let s = FUNCS[idx(*f, FUNCS.len())];
                self.toks.push(Tok::Ident(s.into()));
                self.text.push_str(s);
                self.args(args);
            }
        }
        // a numeric literal cannot take `.attr` textually (`1.m` lexes as a float): wrap
        for pf in &o.postfix {
            self.toks.push(Tok::Dot);
            self.text.push('.');
            match pf {
                Postfix::Attr(a) => {
                    let s = ATTRS[idx(*a, ATTRS.len())];
                    self.toks.push(Tok::Ident(s.into()));
                    self.text.push_str(s);
                }
                Postfix::Method(a, args) => {
                    let s = ATTRS[idx(*a, ATTRS.len())];
                    self.toks.push(Tok::Ident(s.into()));
                    self.text.push_str(s);
                    self.args(args);
                }
            }
        }
    }
    fn args(&mut self, args: &[Chain]) {
        self.toks.push(Tok::LParen);
        self.text.push('(');
        for (i, a) in args.iter().enumerate() {
            if i > 0 {
                self.toks.push(Tok::Comma);
                self.text.push_str(", ");
            }
            self.chain(a);
        }
        self.toks.push(Tok::RParen);
        self.text.push(')');
    }
    fn chain(&mut self, c: &Chain) {
        self.operand(&c.first);
        for (op, sp, o) in &c.rest {
            let oi = idx(*op, BINOPS.len());
            let name = BINOPS[oi].0;
            let word = name.chars().all(|c| c.is_ascii_alphabetic());
            let starts_with_sign = !o.prefix.is_empty() || matches!(o.primary, Primary::NegNum(_));
            let mut style = *sp % 3;
            if word || name == "!=" {
                style = 0;
            }
            // keep operator characters of adjacent tokens apart (`<-`, `..-`, `+-` are fine
            // for erg's lexer only in some cases; the property is about parsing, not lexing)
            if starts_with_sign && style == 1 {
                style = 2;
            }
            match style {
                0 => {
                    self.text.push(' ');
                    self.text.push_str(name);
                    self.text.push(' ');
                }
                1 => self.text.push_str(name),
                _ => {
                    self.text.push_str(name);
                    self.text.push(' ');
                }
            }
            self.toks.push(Tok::Bin(oi));
            self.operand(o);
        }
    }
}

/// canonical S-expression
#[derive(Clone, Debug, PartialEq)]
enum S {
    Atom(String),
    Node(String, Vec<S>),
}
impl S {
    fn show(&self) -> String {
        match self {
            S::Atom(a) => a.clone(),
            S::Node(h, xs) => format!("({h} {})", xs.iter().map(|x| x.show()).collect::<Vec<_>>().join(" ")),
        }
    }
    fn ops(&self, out: &mut Vec<String>) {
        if let S::Node(h, xs) = self {
            out.push(h.clone());
            for x in xs {
                x.ops(out);
            }
        }
    }
}

struct Ref<'a> {
    t: &'a [Tok],
    i: usize,
}
impl<'a> Ref<'a> {
    fn peek(&self) -> Option<&Tok> {
        self.t.get(self.i)
    }
    /// precedence climbing; all binary operators group to the left
    fn expr(&mut self, min_prec: u32) -> S {
        let mut lhs = self.prefix();
        loop {
            let Some(Tok::Bin(oi)) = self.peek().cloned() else { break };
            let prec = BINOPS[oi].1;
            if prec < min_prec {
                break;
            }
            self.i += 1;
            let rhs = self.expr(prec + 1);
            lhs = S::Node(BINOPS[oi].0.to_string(), vec![lhs, rhs]);
        }
        lhs
    }
    fn prefix(&mut self) -> S {
        if let Some(Tok::Pre(pi)) = self.peek().cloned() {
            self.i += 1;
            // the operand of a prefix operator extends over everything that binds tighter
            let operand = self.expr(PREFIX_PREC + 1);
            return S::Node(format!("pre{}", PREFIX[pi]), vec![operand]);
        }
        self.postfix()
    }
    fn postfix(&mut self) -> S {
        let mut e = match self.peek().cloned() {
            Some(Tok::Ident(s)) => {
                self.i += 1;
                if self.peek() == Some(&Tok::LParen) {
                    let args = self.args();
                    let mut v = vec![S::Atom(s)];
                    v.extend(args);
                    S::Node("call".into(), v)
                } else {
                    S::Atom(s)
                }
            }
            Some(Tok::Num(s)) => {
                self.i += 1;
                S::Atom(s)
            }
            Some(Tok::LParen) => {
                self.i += 1;
                let e = self.expr(0);
                assert_eq!(self.peek(), Some(&Tok::RParen));
                self.i += 1;
                e
            }
            other => panic!("reference parser: unexpected {other:?}"),
        };
        while self.peek() == Some(&Tok::Dot) {
            self.i += 1;
            let Some(Tok::Ident(name)) = self.peek().cloned() else { panic!("reference parser: attr") };
            self.i += 1;
            if self.peek() == Some(&Tok::LParen) {
                let args = self.args();
                let mut v = vec![e, S::Atom(name)];
                v.extend(args);
                e = S::Node("mcall".into(), v);
            } else {
                e = S::Node(".".into(), vec![e, S::Atom(name)]);
            }
        }
        e
    }
    fn args(&mut self) -> Vec<S> {
        assert_eq!(self.peek(), Some(&Tok::LParen));
        self.i += 1;
        let mut out = vec![];
        if self.peek() == Some(&Tok::RParen) {
            self.i += 1;
            return out;
        }
        loop {
            out.push(self.expr(0));
            match self.peek() {
                Some(Tok::Comma) => self.i += 1,
                Some(Tok::RParen) => {
                    self.i += 1;
                    break;
                }
                other => panic!("reference parser: args {other:?}"),
            }
        }
        out
    }
}

fn from_erg(e: &AExpr) -> S {
    match e {
        AExpr::Literal(l) => S::Atom(l.token.content.to_string()),
        AExpr::Accessor(Accessor::Ident(i)) => S::Atom(i.inspect().to_string()),
        AExpr::Accessor(Accessor::Attr(a)) => S::Node(".".into(), vec![from_erg(&a.obj), S::Atom(a.ident.inspect().to_string())]),
        AExpr::BinOp(b) => S::Node(b.op.content.to_string(), vec![from_erg(&b.args[0]), from_erg(&b.args[1])]),
        AExpr::UnaryOp(u) => S::Node(format!("pre{}", u.op.content), vec![from_erg(&u.args[0])]),
        AExpr::Call(c) => {
            let mut v = vec![];
            let head = if let Some(name) = &c.attr_name {
                v.push(from_erg(&c.obj));
                v.push(S::Atom(name.inspect().to_string()));
                "mcall"
            } else {
                v.push(from_erg(&c.obj));
                "call"
            };
            for a in &c.args.pos_args {
                v.push(from_erg(&a.expr));
            }
            if c.args.var_args.is_some() || !c.args.kw_args.is_empty() || c.args.kw_var_args.is_some() {
                v.push(S::Atom("<non-positional-args>".into()));
            }
            S::Node(head.into(), v)
        }
        AExpr::Tuple(_) => S::Atom("<tuple>".into()),
        other => S::Atom(format!("<{}>", other.name())),
    }
}

fn operand(depth: u32) -> BoxedStrategy<Operand> {
    let leaf = prop_oneof![
        5 => any::<u32>().prop_map(Primary::Ident),
        3 => any::<u32>().prop_map(Primary::Num),
        1 => any::<u32>().prop_map(Primary::NegNum),
    ];
    let primary: BoxedStrategy<Primary> = if depth == 0 {
        leaf.boxed()
    } else {
        prop_oneof![
            8 => leaf,
            2 => chain(depth - 1).prop_map(|c| Primary::Paren(Box::new(c))),
            1 => (any::<u32>(), proptest::collection::vec(chain(depth - 1), 0..3)).prop_map(|(f, a)| Primary::Call(f, a)),
        ]
        .boxed()
    };
    let postfix: BoxedStrategy<Postfix> = if depth == 0 {
        any::<u32>().prop_map(Postfix::Attr).boxed()
    } else {
        prop_oneof![
            1 => any::<u32>().prop_map(Postfix::Attr),
            1 => (any::<u32>(), proptest::collection::vec(chain(depth - 1), 0..2)).prop_map(|(m, a)| Postfix::Method(m, a)),
        ]
        .boxed()
    };
    (
        prop_oneof![6 => Just(0usize), 3 => Just(1usize), 1 => Just(2usize)],
        proptest::collection::vec((any::<u32>(), proptest::bool::weighted(0.15)), 2),
        primary,
        prop_oneof![5 => Just(0usize), 2 => Just(1usize), 1 => Just(2usize)],
        proptest::collection::vec(postfix, 2),
    )
        .prop_map(|(np, mut prefix, primary, nq, mut postfix)| {
            prefix.truncate(np);
            postfix.truncate(nq);
            // numeric literals do not take member access textually
            if matches!(primary, Primary::Num(_) | Primary::NegNum(_)) {
                postfix.clear();
            }
            Operand { prefix, primary, postfix }
        })
        .boxed()
}

fn chain(depth: u32) -> BoxedStrategy<Chain> {
    (
        operand(depth),
        proptest::collection::vec((any::<u32>(), 0u8..3, operand(depth)), 0..5),
    )
        .prop_map(|(first, rest)| Chain { first, rest })
        .boxed()
}

fn max_depth(c: &Chain) -> usize {
    fn od(o: &Operand) -> usize {
        let p = match &o.primary {
            Primary::Paren(c) => 1 + max_depth(c),
            Primary::Call(_, a) => 1 + a.iter().map(max_depth).max().unwrap_or(0),
            _ => 0,
        };
        let q = o
            .postfix
            .iter()
            .map(|p| match p {
                Postfix::Method(_, a) => 1 + a.iter().map(max_depth).max().unwrap_or(0),
                _ => 0,
            })
            .max()
            .unwrap_or(0);
        p.max(q)
    }
    std::iter::once(&c.first).chain(c.rest.iter().map(|r| &r.2)).map(od).max().unwrap_or(0)
}

impl Property for C11 {
    type Case = Chain;
    fn id(&self) -> &'static str {
        "C11"
    }
    fn rule(&self) -> String {
        "operator expressions generated as token chains: operands (identifier, numeric literal, -literal, parenthesised chain, call) with 0-2 prefix operators (+ - ~, glued or spaced) and 0-2 postfix member accesses / method calls, joined by binary operators of the whole documented table with spacing `a + b`, `a+b`, `a+ b`; nesting depth <= 3 (parens / arguments), <= 5 operands per chain. Oracle: a precedence-climbing reference parser built from the table in the property statement (all binary operators left-associative; `-digit` in prefix position is a literal) must give the same tree as erg's Parser. Non-trivial = >= 2 binary operators of different precedence, or a prefix operator whose operand is followed by a binary operator; distinct by case".into()
    }
    fn strategy(&self, tier: Tier) -> BoxedStrategy<Chain> {
        chain(tier.pick(2, 3) as u32)
    }
    fn cases(&self, tier: Tier) -> usize {
        tier.pick(20_000, 600_000)
    }
    fn render(&self, case: &Chain) -> serde_json::Value {
        let mut p = Printer { toks: vec![], text: String::new() };
        p.chain(case);
        let mut r = Ref { t: &p.toks, i: 0 };
        let want = r.expr(0);
        json!({"source": p.text, "expected_tree": want.show()})
    }
    fn run(&self, case: &Chain) -> Outcome {
        let mut p = Printer { toks: vec![], text: String::new() };
        p.chain(case);
        let mut r = Ref { t: &p.toks, i: 0 };
        let want = r.expr(0);
        if r.i != p.toks.len() {
            return Outcome::inconclusive("reference-parser-leftover");
        }
        let src = p.text.clone();
        let got = match <Parser as Parsable>::parse(src.clone()) {
            Ok(art) => {
                let m = art.ast;
                let exprs: Vec<&AExpr> = m.iter().collect();
                if exprs.len() != 1 {
                    return Outcome::fail(
                        "one expression parsed into several chunks",
                        json!({"source": src, "chunks": exprs.len(), "expected": want.show()}),
                    );
                }
                from_erg(exprs[0])
            }
            Err(iart) => {
                return Outcome::fail(
                    "well-formed operator expression rejected",
                    json!({"source": src, "errors": format!("{}", iart.errors), "expected": want.show()}),
                );
            }
        };
        let mut ops = vec![];
        want.ops(&mut ops);
        let bin_precs: std::collections::BTreeSet<u32> = ops
            .iter()
            .filter_map(|o| BINOPS.iter().find(|(n, _)| n == o).map(|(_, p)| *p))
            .collect();
        let has_prefix = ops.iter().any(|o| o.starts_with("pre"));
        let nbin = ops.iter().filter(|o| BINOPS.iter().any(|(n, _)| n == *o)).count();
        let nontrivial = bin_precs.len() >= 2 || (has_prefix && nbin >= 1);
        if got != want {
            // signature: which operator classes are involved in the smallest differing subtree
            fn first_diff<'a>(a: &'a S, b: &'a S) -> (&'a S, &'a S) {
                if let (S::Node(h1, x1), S::Node(h2, x2)) = (a, b) {
                    if h1 == h2 && x1.len() == x2.len() {
                        for (p, q) in x1.iter().zip(x2.iter()) {
                            if p != q {
                                return first_diff(p, q);
                            }
                        }
                    }
                }
                (a, b)
            }
            let (da, db) = first_diff(&got, &want);
            let head = |s: &S| match s {
                S::Atom(_) => "atom".to_string(),
                S::Node(h, _) => h.clone(),
            };
            let class = |h: String| {
                if h.starts_with("pre") {
                    "prefix".to_string()
                } else if let Some((_, p)) = BINOPS.iter().find(|(n, _)| *n == h) {
                    format!("bin{p}")
                } else {
                    h
                }
            };
            return Outcome::fail(
                format!("tree differs: erg has {} where the table gives {}", class(head(da)), class(head(db))),
                json!({"source": src, "erg": got.show(), "expected": want.show()}),
            );
        }
        let mut o = Outcome::pass(nontrivial);
        if has_prefix {
            o.classes.push("has-prefix".into());
        }
        o.classes.push(format!("depth-{}", max_depth(case)));
        o.classes.push(format!("precedence-levels-{}", bin_precs.len().min(4)));
        o
    }
}

/// Deterministic sample of generated operator expressions rendered as small programs
/// (`v0 = <expr>` lines); used by C10 as additional corpus material.
pub fn sample_sources(files: usize, lines: usize) -> Vec<String> {
    use proptest::strategy::ValueTree;
    use proptest::test_runner::{Config, RngAlgorithm, TestRng, TestRunner};
    let rng = TestRng::from_seed(RngAlgorithm::ChaCha, &[0x5e; 32]);
    let mut runner = TestRunner::new_with_rng(Config { failure_persistence: None, ..Config::default() }, rng);
    let strat = chain(2);
    let mut out = vec![];
    for _ in 0..files {
        let mut src = String::new();
        for k in 0..lines {
            let Ok(tree) = strat.new_tree(&mut runner) else { continue };
            let mut p = Printer { toks: vec![], text: String::new() };
            p.chain(&tree.current());
            src.push_str(&format!("v{k} = {}\n", p.text));
        }
        out.push(src);
    }
    out
}
