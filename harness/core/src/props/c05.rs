//! C05 — definite static errors are always rejected.
use crate::ergx;
use crate::gen::{raw, tape_strategy, Gen, GenCfg};
use proptest::prelude::*;
use serde::{Deserialize, Serialize};
use serde_json::json;
use vkit::engine::{Mode, Outcome, Policy, Property, Tier};
use vkit::util::idx;

pub struct C05;

#[derive(Serialize, Deserialize, Clone, Debug)]
pub struct Case {
    pub tape: Vec<u32>,
    /// which expression position receives the error
    pub site: u32,
    /// which definite error
    pub error: u32,
}

/// (class, erroneous expression): each is an error under every typing of the fragment
const ERRORS: &[(&str, &str)] = &[
    ("operator:str-minus-int", "(\"a\" - 1)"),
    ("operator:str-div-int", "(\"a\" / 2)"),
    ("operator:list-minus-int", "([1] - 1)"),
    ("operator:int-minus-str", "(1 - \"a\")"),
    ("operator:str-floordiv-str", "(\"a\" // \"b\")"),
    ("operator:bool-minus-str", "(True - \"x\")"),
    ("arity:too-few", "hlp_(1)"),
    ("arity:too-many", "hlp_(1, 2, 3)"),
    ("arity:unknown-keyword", "hlp_(1, 2, zz := 3)"),
    ("argument:str-for-int", "hlp_(\"s\", 2)"),
    ("argument:list-for-int", "hlp_(1, [2])"),
    ("argument:int-for-str", "hls_(5)"),
    ("name:undefined", "zz_undefined_name_7"),
    ("name:undefined-callee", "zz_undefined_fn_7(1)"),
    ("attribute:int-upperr", "(1).upperr()"),
    ("attribute:str-no-such", "(\"a\").no_such_attr"),
    ("attribute:list-frobnicate", "([1]).frobnicate()"),
];

const HELPERS: &str = "hlp_(a: Int, b: Int): Int = a + b\nhls_(s: Str): Str = s + \"!\"\n";
const HELPER_USE: &str = "print! hlp_(1, 2), hls_(\"x\")\n";

fn cfg() -> GenCfg {
    GenCfg { exits: false, ..GenCfg::default() }
}

fn sources(case: &Case) -> (String, Option<(String, usize, &'static str)>) {
    let mut g = Gen::new(&case.tape, cfg());
    let mut prog = g.program();
    let control = format!("{HELPERS}{}{HELPER_USE}", prog.to_erg());
    let n = prog.count_exprs();
    if n == 0 {
        return (control, None);
    }
    let (class, text) = ERRORS[idx(case.error, ERRORS.len())];
    let k = idx(case.site, n);
    let depth = prog.replace_expr(k, raw(text)).unwrap_or(0);
    let mutant = format!("{HELPERS}{}{HELPER_USE}", prog.to_erg());
    (control, Some((mutant, depth, class)))
}

impl Property for C05 {
    type Case = Case;
    fn id(&self) -> &'static str {
        "C05"
    }
    fn rule(&self) -> String {
        "metamorphic pairs: a fragment program the checker accepts (control) and the same program with exactly one expression node, chosen uniformly among all expression positions (top level, function and lambda bodies, default arguments, loop and branch bodies, call arguments, list elements, interpolations, conditions), replaced by a definite error: an operator on operand classes that have no implementation (Str - Int, Str / Int, List - Int, Int - Str, Str // Str, Bool - Str), a call with too few / too many arguments / an unknown keyword, an argument of a disjoint class, an undefined name or callee, an attribute the receiver's class does not have. Oracle: control accepted => the mutant yields >= 1 error diagnostic; for a sample the CLI `erg run` must exit non-zero without printing the program's output. Non-trivial = control accepted and injection depth >= 1; distinct by mutant text".into()
    }
    fn strategy(&self, tier: Tier) -> BoxedStrategy<Case> {
        (tape_strategy(tier.pick(140, 280)), any::<u32>(), any::<u32>()).prop_map(|(tape, site, error)| Case { tape, site, error }).boxed()
    }
    fn cases(&self, tier: Tier) -> usize {
        tier.pick(3_000, 60_000)
    }
    fn mode(&self) -> Mode {
        Mode::Workers
    }
    fn panic_policy(&self) -> Policy {
        Policy::Discard
    }
    fn abort_policy(&self) -> Policy {
        Policy::Discard
    }
    fn render(&self, case: &Case) -> serde_json::Value {
        let (c, m) = sources(case);
        json!({"control": c, "mutant": m.map(|x| x.0)})
    }
    fn shrink_budget(&self) -> usize {
        150
    }
    fn run(&self, case: &Case) -> Outcome {
        let (control, m) = sources(case);
        let Some((mutant, depth, class)) = m else { return Outcome::discard("no-expression") };
        if let Err(d) = ergx::compile(&control, "3.11", 1) {
            return crate::progrun::rejected_outcome(&d);
        }
        match ergx::compile(&mutant, "3.11", 1) {
            Err(d) if d.iter().any(|x| !x.is_warning) => {
                // CLI spot check: not executed
                if vkit::util::hash_str(&mutant) % 24 == 0 {
                    let p = vkit::util::work_dir().join("c05.er");
                    let _ = std::fs::write(&p, &mutant);
                    if let Some(exe) = std::env::current_exe().ok().and_then(|p| p.parent().map(|d| d.join("erg-cli"))) {
                        if let Ok(out) = std::process::Command::new(exe).arg("run").arg(&p).output() {
                            let so = String::from_utf8_lossy(&out.stdout);
                            if out.status.success() || so.contains("x!") {
                                return Outcome::fail(
                                    format!("erg run executes a program with a definite error ({class})"),
                                    json!({"mutant": mutant, "status": out.status.code(), "stdout": vkit::util::truncate(&so, 300)}),
                                );
                            }
                        }
                    }
                }
                Outcome::pass(depth >= 1).class(format!("error:{class}")).class(format!("depth:{}", depth.min(6)))
            }
            _ => Outcome::fail(format!("definite error accepted ({class})"), json!({"mutant": mutant, "depth": depth})),
        }
    }
}
