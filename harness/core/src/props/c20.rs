//! C20 — multi-module analysis terminates and resolves every import graph.
use crate::projgen::{self, Proj};
use proptest::prelude::*;
use serde::{Deserialize, Serialize};
use serde_json::json;
use vkit::engine::{Mode, Outcome, Policy, Property, Tier};

pub struct C20;

#[derive(Serialize, Deserialize, Clone, Debug)]
pub struct Case {
    pub proj: Proj,
    /// selects the binding whose annotation is falsified in the negative variant
    pub neg: u8,
}

const LIMIT_S: f64 = 90.0;

impl Property for C20 {
    type Case = Case;
    fn id(&self) -> &'static str {
        "C20"
    }
    fn rule(&self) -> String {
        "projects of 1-8 modules (main.er, m1.er ...) with a generated import graph (forward edges, back edges giving 2- and longer cycles, self-imports, diamonds; every module reachable from main); each module prints a start and an end marker, defines typed public bindings (.a: Int, .s: Str, .f: Int -> Int, .g), reads its imports' bindings at top level through annotated bindings (only imports not in a cycle with it) and inside .g (any import, through .f and .a). `erg run main.er` in a fresh directory must terminate (90 s limit, confirmed by a second run), exit 0, and print exactly the multiset of lines the model predicts (each marker once; each value as defined). Negative variant: main with one annotation `t: Str = m.a` must be rejected. Non-trivial = >= 3 modules and (a cycle or a diamond); distinct by project".into()
    }
    fn strategy(&self, _tier: Tier) -> BoxedStrategy<Case> {
        (projgen::proj_strategy(), any::<u8>()).prop_map(|(proj, neg)| Case { proj, neg }).boxed()
    }
    fn cases(&self, tier: Tier) -> usize {
        tier.pick(200, 8_000)
    }
    fn mode(&self) -> Mode {
        Mode::Workers
    }
    fn timeout_s(&self) -> f64 {
        400.0
    }
    fn shrink_budget(&self) -> usize {
        60
    }
    fn panic_policy(&self) -> Policy {
        Policy::Discard
    }
    fn render(&self, case: &Case) -> serde_json::Value {
        case.proj.render()
    }
    fn run(&self, case: &Case) -> Outcome {
        let Some(exe) = projgen::cli("erg-cli") else { return Outcome::inconclusive("no-erg-cli") };
        let p = &case.proj;
        let dir = vkit::util::work_dir().join(format!("c20-{:016x}", vkit::util::hash_str(&serde_json::to_string(p).unwrap())));
        let _ = std::fs::remove_dir_all(&dir);
        if p.write_to(&dir).is_err() {
            return Outcome::inconclusive("cannot-write-project");
        }
        let mut classes = p.shape_classes();
        let cyc_var = p.var_use_in_cycle();
        if cyc_var {
            classes.push("uses:variable-of-cycle-partner".into());
        }
        let run = |limit: f64| {
            let mut c = std::process::Command::new(&exe);
            c.arg("run").arg("main.er").current_dir(&dir);
            projgen::run_limited(c, limit)
        };
        let mut r = match run(LIMIT_S) {
            Ok(r) => r,
            Err(_) => return Outcome::inconclusive("cannot-run-erg-cli"),
        };
        if r.timed_out {
            // confirm once more before calling it non-termination
            r = match run(LIMIT_S) {
                Ok(r) => r,
                Err(_) => return Outcome::inconclusive("cannot-run-erg-cli"),
            };
            if r.timed_out {
                let _ = std::fs::remove_dir_all(&dir);
                return Outcome::fail("erg run does not terminate within 90 s (twice)", json!({"project": p.render()})).classes(classes);
            }
        }
        // diagnostics (warnings) go to stdout as well: keep the lines the program itself prints
        let is_prog_line = |l: &str| l.starts_with("start ") || l.starts_with("end ") || l.starts_with("main g ") || l.split(' ').nth(1) == Some("sees");
        let mut got: Vec<String> = r.stdout.lines().filter(|l| is_prog_line(l)).map(|l| l.to_string()).collect();
        got.sort();
        let want = p.expected_lines();
        let stderr = format!("{}\n{}", projgen::strip_ansi(&r.stderr), projgen::strip_ansi(&r.stdout).lines().filter(|l| l.contains("Error")).collect::<Vec<_>>().join("\n"));
        let detail = |what: &str| json!({"what": what, "project": p.render(), "program_lines_sorted": got, "stdout_tail": vkit::util::truncate(&projgen::strip_ansi(&r.stdout).chars().rev().take(700).collect::<String>().chars().rev().collect::<String>(), 800), "expected_lines_sorted": want, "exit": r.code, "stderr": vkit::util::truncate(&stderr, 900)});
        let verdict = if r.code != Some(0) || got != want {
            let self_import = classes.iter().any(|c| c == "graph:self-import");
            let sig = if r.code == Some(139) && got == want {
                "erg run exits with status 139 (the Python interpreter segfaults) after printing the complete expected output".to_string()
            } else if self_import && stderr.contains("module '__main__' has no attribute") {
                "a module that imports itself cannot use its own public names through that import at run time (the name resolves to __main__)".to_string()
            } else if stderr.contains("object has no attribute") && classes.iter().any(|c| c.contains("cycle") || c.contains("self")) {
                "a public name of a module on an import cycle is not visible to an importer (AttributeError: Module object has no attribute)".to_string()
            } else if stderr.contains("Error") && got.is_empty() {
                let kind = stderr.lines().find(|l| l.contains("Error:")).map(|l| l.split(':').next().unwrap_or("").trim().to_string()).unwrap_or_default();
                format!("project rejected or crashed: {kind}{}", if classes.iter().any(|c| c.contains("cycle") || c.contains("self")) { " (import cycle present)" } else { "" })
            } else if got.iter().filter(|l| l.starts_with("start ")).count() != want.iter().filter(|l| l.starts_with("start ")).count() {
                "a module's top level runs a number of times other than once".to_string()
            } else {
                "output differs from the model".to_string()
            };
            Some(Outcome::fail(sig, detail("run")))
        } else {
            None
        };
        if let Some(v) = verdict {
            let _ = std::fs::remove_dir_all(&dir);
            return v.classes(classes);
        }
        // negative variant: a falsified annotation in main must be rejected
        let main_src = p.source(0);
        let anns: Vec<usize> = main_src.match_indices(": Int = m").map(|(i, _)| i).collect();
        let mut neg_done = false;
        if !anns.is_empty() {
            let at = anns[case.neg as usize % anns.len()];
            let mutated = format!("{}: Str = m{}", &main_src[..at], &main_src[at + ": Int = m".len()..]);
            if std::fs::write(dir.join("main.er"), &mutated).is_ok() {
                let mut c = std::process::Command::new(&exe);
                c.arg("check").arg("main.er").current_dir(&dir);
                if let Ok(r2) = projgen::run_limited(c, LIMIT_S) {
                    neg_done = true;
                    if !r2.timed_out && r2.code == Some(0) {
                        let _ = std::fs::remove_dir_all(&dir);
                        return Outcome::fail("an imported Int binding is accepted where Str is declared", json!({"main": mutated, "project": p.render()})).classes(classes);
                    }
                }
            }
        }
        let _ = std::fs::remove_dir_all(&dir);
        if neg_done {
            classes.push("negative-variant:rejected".into());
        }
        let live = p.reach(0).len() + 1;
        let nt = live >= 3 && classes.iter().any(|c| c.contains("cycle") || c == "graph:diamond");
        Outcome::pass(nt).classes(classes)
    }
}
