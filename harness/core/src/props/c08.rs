//! C08 — the lexer is total and reports faithful token positions.
use erg_common::traits::{DequeStream, Stream};
use erg_parser::lex::Lexer;
use erg_parser::token::TokenKind;
use proptest::prelude::*;
use serde::{Deserialize, Serialize};
use serde_json::json;
use vkit::engine::{Mode, Outcome, Policy, Property, Tier};
use vkit::util::idx;

pub struct C08;

// ---- domain B: sources built from a lexeme list -----------------------------------------

const IDENTS: &[&str] = &["x", "foo", "bar_1", "変数", "π", "näme", "a!", "_y", "Ünï"];
const NUMS: &[&str] = &["0", "1", "42", "1_000", "3.14", "1e+3", "0x1F", "0b101", "0o17", "2.5e-3"];
const OPS: &[&str] = &[
    "+", "-", "*", "/", "//", "%", "**", "==", "!=", "<", ">", "<=", ">=", "=", "->", "=>", "and", "or", "in", ",", ":", "<<", ">>", "&&", "||",
    "^^", "..", "..<", "<..", ":=", "|>",
];
const PLAIN: &[char] = &['a', 'Z', '0', ' ', '-', '#', '{', '}', '\'', 'é', '日', '😀', 'ß', '/', '(', ']', '.', ','];
/// (source spelling, number of source characters)
const ESCAPES: &[&str] = &["\\n", "\\t", "\\\\", "\\\"", "\\'", "\\0", "\\r", "\\x41", "\\x7e"];

#[derive(Serialize, Deserialize, Clone, Debug)]
pub enum Piece {
    Plain(u32),
    Esc(u32),
}

#[derive(Serialize, Deserialize, Clone, Debug)]
pub enum Lexeme {
    Ident(u32),
    Num(u32),
    Op(u32),
    Str(Vec<Piece>),
    /// "left\{ inner }right"
    Interp(Vec<Piece>, Vec<Lexeme>, Vec<Piece>),
    /// """line\nline""" (each inner Vec is one source line of the literal)
    MultiStr(Vec<Vec<Piece>>),
    LParen,
    RParen,
}

#[derive(Serialize, Deserialize, Clone, Debug)]
pub struct Line {
    /// -1 / 0 / +1 relative to the previous line (clamped to valid indentation)
    pub indent_delta: i8,
    pub lexemes: Vec<(u8, Lexeme)>, // (spaces before, lexeme)
    pub comment: Option<Vec<Piece>>,
    pub trailing_spaces: u8,
}

const EDGE: &[&str] = &["\"", "\"\"\"", "'", "'''", "\\", "\\{", "}", "a", "\n", "#[", "]#"];

#[derive(Serialize, Deserialize, Clone, Debug)]
pub enum Case {
    /// arbitrary text (totality)
    Text(String),
    /// corpus file index, cut position selector, mutation
    Corpus(u32, u32, u32, u8),
    /// lexeme-built source (positions)
    Built(Vec<Line>),
}

struct Built {
    text: String,
    line: u32, // 1-origin
    col: u32,  // 0-origin, in characters
    /// expected (lineno, col_begin) of every non-layout token, in order
    expect: Vec<(u32, u32, String)>,
    after_escape_on_line: bool,
    nontrivial_hits: usize,
    paren_depth: i32,
}

impl Built {
    fn push_str(&mut self, s: &str) {
        for ch in s.chars() {
            self.text.push(ch);
            if ch == '\n' {
                self.line += 1;
                self.col = 0;
                self.after_escape_on_line = false;
            } else {
                self.col += 1;
            }
        }
    }
    fn mark(&mut self, what: &str) {
        if self.after_escape_on_line {
            self.nontrivial_hits += 1;
        }
        self.expect.push((self.line, self.col, what.to_string()));
    }
    fn pieces(&mut self, ps: &[Piece]) {
        for p in ps {
            match p {
                Piece::Plain(i) => {
                    let c = PLAIN[idx(*i, PLAIN.len())];
                    if !c.is_ascii() {
                        self.after_escape_on_line = true;
                    }
                    self.push_str(&c.to_string());
                }
                Piece::Esc(i) => {
                    self.after_escape_on_line = true;
                    self.push_str(ESCAPES[idx(*i, ESCAPES.len())]);
                }
            }
        }
    }
    fn lexeme(&mut self, l: &Lexeme, depth: u32) {
        match l {
            Lexeme::Ident(i) => {
                let s = IDENTS[idx(*i, IDENTS.len())];
                if !s.is_ascii() {
                    self.after_escape_on_line = true;
                }
                self.mark(s);
                self.push_str(s);
            }
            Lexeme::Num(i) => {
                let s = NUMS[idx(*i, NUMS.len())];
                self.mark(s);
                self.push_str(s);
            }
            Lexeme::Op(i) => {
                let s = OPS[idx(*i, OPS.len())];
                self.mark(s);
                self.push_str(s);
            }
            Lexeme::LParen => {
                self.mark("(");
                self.push_str("(");
                self.paren_depth += 1;
            }
            Lexeme::RParen => {
                if self.paren_depth > 0 {
                    self.mark(")");
                    self.push_str(")");
                    self.paren_depth -= 1;
                } else {
                    self.mark("x");
                    self.push_str("x");
                }
            }
            Lexeme::Str(ps) => {
                self.mark("str");
                self.push_str("\"");
                self.pieces(ps);
                self.push_str("\"");
            }
            Lexeme::Interp(l, inner, r) => {
                self.mark("interp-left");
                self.push_str("\"");
                self.pieces(l);
                self.push_str("\\{");
                let mut any = false;
                for x in inner {
                    if depth == 0 && !matches!(x, Lexeme::Interp(..) | Lexeme::MultiStr(..) | Lexeme::LParen | Lexeme::RParen | Lexeme::Op(_)) {
                        if any {
                            // two operands need an operator between them only for the parser; the
                            // lexer is indifferent. keep one space.
                            self.push_str(" ");
                        }
                        self.lexeme(x, depth + 1);
                        any = true;
                    }
                }
                if !any {
                    self.mark("x");
                    self.push_str("x");
                }
                self.mark("interp-right");
                self.push_str("}");
                let r: Vec<Piece> = r.iter().filter(|p| !matches!(p, Piece::Esc(i) if ESCAPES[idx(*i, ESCAPES.len())].starts_with("\\x"))).cloned().collect();
                self.pieces(&r);
                self.push_str("\"");
            }
            Lexeme::MultiStr(lines) => {
                self.mark("multistr");
                self.push_str("\"\"\"");
                for (k, ps) in lines.iter().enumerate() {
                    if k > 0 {
                        self.push_str("\n");
                    }
                    // a quote directly before the closing quotes would change the literal's end
                    // (`\x..` is only supported in single-line literals before an interpolation:
                    // elsewhere the lexer reports "illegal escape sequence", a clean diagnostic)
                    let ps: Vec<Piece> = ps
                        .iter()
                        .filter(|p| !matches!(p, Piece::Esc(i) if ESCAPES[idx(*i, ESCAPES.len())] == "\\\"" || ESCAPES[idx(*i, ESCAPES.len())].starts_with("\\x")))
                        .cloned()
                        .collect();
                    self.pieces(&ps);
                }
                self.push_str("\"\"\"");
                if lines.len() > 1 {
                    self.after_escape_on_line = true;
                }
            }
        }
    }
}

fn build(lines: &[Line]) -> Built {
    let mut b = Built { text: String::new(), line: 1, col: 0, expect: vec![], after_escape_on_line: false, nontrivial_hits: 0, paren_depth: 0 };
    let mut level: i32 = 0;
    let mut first = true;
    let mut prev_had_tokens = false;
    for ln in lines {
        if !first {
            b.push_str("\n");
        }
        let has_tokens = !ln.lexemes.is_empty();
        if b.paren_depth == 0 && has_tokens {
            // only lines with tokens define indentation levels (the lexer never sees the others)
            if !prev_had_tokens {
                level = 0;
            } else {
                level = (level + ln.indent_delta.clamp(-1, 1) as i32).clamp(0, 4);
            }
        }
        if has_tokens || ln.comment.is_some() {
            // comment-only lines are indented like code lines (the lexer skips them anyway)
            if b.paren_depth == 0 {
                b.push_str(&" ".repeat((level * 4) as usize));
            }
        }
        for (k, (sp, lx)) in ln.lexemes.iter().enumerate() {
            if k > 0 {
                b.push_str(&" ".repeat(1 + (*sp % 3) as usize));
            }
            b.lexeme(lx, 0);
        }
        if let Some(c) = &ln.comment {
            if has_tokens {
                b.push_str(" ");
            }
            b.push_str("#");
            let ps: Vec<Piece> = c.iter().filter(|p| matches!(p, Piece::Plain(_))).cloned().collect();
            b.pieces(&ps);
        } else if has_tokens {
            b.push_str(&" ".repeat((ln.trailing_spaces % 3) as usize));
        }
        first = false;
        if has_tokens {
            prev_had_tokens = true;
        }
    }
    // close parentheses so that the stream is balanced (the lexer does not care, but keep it tidy)
    if b.paren_depth > 0 {
        b.push_str("\n");
    }
    while b.paren_depth > 0 {
        b.mark(")");
        b.push_str(")");
        b.paren_depth -= 1;
    }
    b.push_str("\n");
    b
}

// ---- corpus ----------------------------------------------------------------------------

pub fn corpus() -> &'static Vec<String> {
    static C: std::sync::OnceLock<Vec<String>> = std::sync::OnceLock::new();
    C.get_or_init(|| {
        let root = vkit::util::repo_root();
        let mut files = vec![];
        for d in ["tests/should_ok", "tests/should_err", "examples", "crates/erg_parser/tests", "crates/els/tests"] {
            collect(&root.join(d), &mut files);
        }
        files.sort();
        files.into_iter().filter_map(|p| std::fs::read_to_string(p).ok()).collect()
    })
}
fn collect(dir: &std::path::Path, out: &mut Vec<std::path::PathBuf>) {
    if let Ok(rd) = std::fs::read_dir(dir) {
        for e in rd.flatten() {
            let p = e.path();
            if p.is_dir() {
                collect(&p, out);
            } else if p.extension().map(|x| x == "er").unwrap_or(false) {
                out.push(p);
            }
        }
    }
}

pub fn corpus_text(file: u32, cut: u32, ins: u32, how: u8) -> String {
    let c = corpus();
    if c.is_empty() {
        return String::new();
    }
    let src: Vec<char> = c[idx(file, c.len())].chars().collect();
    let n = src.len();
    let at = idx(cut, n + 1);
    const SNIPPETS: &[&str] = &["\"", "\\", "\"\"\"", "'", "#[", "]#", "\\{", "}", "\t", "\r", "\n    ", "\u{202e}", "(", ")", "'''", "\\x", "\\\n", "\0", "!", "\"\\", "{", "\n\n  x"];
    let snip = SNIPPETS[idx(ins, SNIPPETS.len())];
    match how % 4 {
        0 => src[..at].iter().collect(),                                   // truncate
        1 => src[..at].iter().collect::<String>() + snip,                  // truncate + snippet
        2 => {
            let mut s: String = src[..at].iter().collect();
            s.push_str(snip);
            s.extend(src[at..].iter());
            s
        }
        _ => {
            let end = (at + 1 + idx(ins, 40)).min(n);
            let mut s: String = src[..at].iter().collect();
            s.extend(src[end..].iter());
            s
        }
    }
}

fn text_strategy() -> BoxedStrategy<String> {
    let atom = prop_oneof![
        6 => "[a-z_A-Z0-9]{1,6}",
        4 => Just(" ".to_string()),
        3 => Just("\n".to_string()),
        2 => Just("    ".to_string()),
        3 => Just("\"".to_string()),
        2 => Just("\\".to_string()),
        1 => Just("\"\"\"".to_string()),
        1 => Just("'''".to_string()),
        1 => Just("'".to_string()),
        1 => Just("\\{".to_string()),
        1 => Just("{".to_string()),
        1 => Just("}".to_string()),
        1 => Just("#".to_string()),
        1 => Just("#[".to_string()),
        1 => Just("]#".to_string()),
        1 => Just("\t".to_string()),
        1 => Just("\r\n".to_string()),
        1 => Just("\r".to_string()),
        1 => Just("\\n".to_string()),
        1 => Just("\\x4".to_string()),
        1 => Just("\\\n".to_string()),
        1 => Just("\u{202e}".to_string()),
        1 => Just("\u{2066}".to_string()),
        1 => Just("変数".to_string()),
        1 => Just("😀".to_string()),
        1 => Just("0x".to_string()),
        1 => Just("1e".to_string()),
        1 => Just("1_".to_string()),
        1 => Just("1.".to_string()),
        1 => Just(".5".to_string()),
        1 => Just("0b2".to_string()),
        3 => "[-+*/%=<>!&|^~.,:;@$?()\\[\\]]{1,3}",
        1 => any::<char>().prop_map(|c| c.to_string()),
    ];
    proptest::collection::vec(atom, 0..40).prop_map(|v| v.concat()).boxed()
}

fn pieces() -> BoxedStrategy<Vec<Piece>> {
    proptest::collection::vec(prop_oneof![3 => any::<u32>().prop_map(Piece::Plain), 2 => any::<u32>().prop_map(Piece::Esc)], 0..6).boxed()
}

fn simple_lexeme() -> BoxedStrategy<Lexeme> {
    prop_oneof![
        4 => any::<u32>().prop_map(Lexeme::Ident),
        2 => any::<u32>().prop_map(Lexeme::Num),
        3 => any::<u32>().prop_map(Lexeme::Op),
        4 => pieces().prop_map(Lexeme::Str),
    ]
    .boxed()
}

fn lexeme() -> BoxedStrategy<Lexeme> {
    prop_oneof![
        10 => simple_lexeme(),
        2 => (pieces(), proptest::collection::vec(simple_lexeme(), 1..3), pieces()).prop_map(|(l, i, r)| Lexeme::Interp(l, i, r)),
        1 => proptest::collection::vec(pieces(), 1..4).prop_map(Lexeme::MultiStr),
        1 => Just(Lexeme::LParen),
        1 => Just(Lexeme::RParen),
    ]
    .boxed()
}

fn built_strategy() -> BoxedStrategy<Vec<Line>> {
    let line = (
        -1i8..=1,
        proptest::collection::vec((0u8..3, lexeme()), 0..7),
        proptest::option::weighted(0.2, pieces()),
        0u8..3,
    )
        .prop_map(|(indent_delta, lexemes, comment, trailing_spaces)| Line { indent_delta, lexemes, comment, trailing_spaces });
    proptest::collection::vec(line, 1..7).boxed()
}

fn layout(k: TokenKind) -> bool {
    matches!(k, TokenKind::Newline | TokenKind::Indent | TokenKind::Dedent | TokenKind::EOF)
}

fn check_total(src: &str) -> Outcome {
    let has_construct = src.contains('"') || src.contains('#') || src.contains("\n ") || src.contains('\'');
    match Lexer::from_str(src.to_string()).lex() {
        Ok(ts) => {
            let last = ts.iter().last().map(|t| t.kind);
            if last != Some(TokenKind::EOF) {
                return Outcome::fail("Ok stream does not end with EOF", json!({"source": src, "last": format!("{last:?}")}));
            }
            let ind = ts.iter().filter(|t| t.kind == TokenKind::Indent).count();
            let ded = ts.iter().filter(|t| t.kind == TokenKind::Dedent).count();
            if ind != ded {
                return Outcome::fail("Ok stream with unbalanced indents", json!({"source": src, "indents": ind, "dedents": ded}));
            }
            Outcome::pass(has_construct).class("lex:ok")
        }
        Err((_ts, errs)) => {
            if errs.is_empty() {
                return Outcome::fail("Err without any error", json!({"source": src}));
            }
            Outcome::pass(has_construct).class("lex:err")
        }
    }
}

impl Property for C08 {
    type Case = Case;
    fn id(&self) -> &'static str {
        "C08"
    }
    fn rule(&self) -> String {
        "A (totality): arbitrary text from a weighted Erg alphabet (quotes, backslashes, braces, comments, tabs, CR, bidi, non-ASCII, numeric prefixes) and corpus files truncated / spliced / cut at random points; oracle: no panic, terminates, Ok => ends with EOF and #Indent == #Dedent, Err => >= 1 error. B (positions): sources built from a lexeme list (identifiers incl. non-ASCII, numbers, operators, strings with every escape, interpolations, multi-line strings, comments, indentation) so the generator knows each lexeme's (line, column-in-characters); oracle: the non-layout tokens, in order, start exactly there. Non-trivial: A = input containing a string/comment/indent construct; B = a token that follows an escape sequence, non-ASCII text or a multi-line string on the same line; distinct by case".into()
    }
    fn strategy(&self, _tier: Tier) -> BoxedStrategy<Case> {
        prop_oneof![
            4 => text_strategy().prop_map(Case::Text),
            3 => (any::<u32>(), any::<u32>(), any::<u32>(), any::<u8>()).prop_map(|(a, b, c, d)| Case::Corpus(a, b, c, d)),
            3 => built_strategy().prop_map(Case::Built),
        ]
        .boxed()
    }
    fn cases(&self, tier: Tier) -> usize {
        tier.pick(40_000, 1_500_000)
    }
    /// every string of up to 4 (quick) / 5 (thorough) units over the string-edge alphabet,
    /// alone and after `s = `: unterminated / half-closed literals, escapes and
    /// interpolations at the end of the input
    fn fixed_cases(&self, tier: Tier) -> Vec<Case> {
        let maxlen = tier.pick(4, 5);
        let mut v = vec![];
        let mut cur: Vec<Vec<usize>> = vec![vec![]];
        for _ in 0..maxlen {
            let mut next = vec![];
            for p in &cur {
                for k in 0..EDGE.len() {
                    let mut q = p.clone();
                    q.push(k);
                    let t: String = q.iter().map(|i| EDGE[*i]).collect();
                    v.push(Case::Text(t.clone()));
                    v.push(Case::Text(format!("s = {t}")));
                    next.push(q);
                }
            }
            cur = next;
        }
        v
    }
    fn mode(&self) -> Mode {
        Mode::Workers
    }
    fn hang_policy(&self) -> Policy {
        Policy::Fail
    }
    fn timeout_s(&self) -> f64 {
        60.0
    }
    fn render(&self, case: &Case) -> serde_json::Value {
        match case {
            Case::Text(s) => json!({"kind": "text", "source": s}),
            Case::Corpus(a, b, c, d) => json!({"kind": "corpus-mutation", "source": vkit::util::truncate(&corpus_text(*a, *b, *c, *d), 400)}),
            Case::Built(lines) => {
                let b = build(lines);
                json!({"kind": "built", "source": b.text, "expected_positions": b.expect.iter().map(|(l, c, w)| format!("{l}:{c} {w}")).collect::<Vec<_>>()})
            }
        }
    }
    fn run(&self, case: &Case) -> Outcome {
        match case {
            Case::Text(s) => check_total(s).class("kind:text"),
            Case::Corpus(a, b, c, d) => check_total(&corpus_text(*a, *b, *c, *d)).class("kind:corpus"),
            Case::Built(lines) => {
                let b = build(lines);
                let res = Lexer::from_str(b.text.clone()).lex();
                let ts = match res {
                    Ok(ts) => ts,
                    Err((_ts, errs)) => {
                        // a bidi character or similar inside a generated literal: not generated;
                        // every built source is lexically valid by construction
                        return Outcome::fail(
                            "lexically valid built source rejected",
                            json!({"source": b.text, "errors": errs.to_string()}),
                        );
                    }
                };
                let got: Vec<(u32, u32, String)> = ts.iter().filter(|t| !layout(t.kind)).map(|t| (t.lineno, t.col_begin, t.content.to_string())).collect();
                for (k, (g, e)) in got.iter().zip(b.expect.iter()).enumerate() {
                    if (g.0, g.1) != (e.0, e.1) {
                        let prev = if k > 0 { b.expect[k - 1].2.clone() } else { "<start>".into() };
                        let prevkind = if prev == "str" || prev.starts_with("interp") || prev == "multistr" { prev } else { "other".into() };
                        return Outcome::fail(
                            format!("token position differs after {prevkind}"),
                            json!({"source": b.text, "token_index": k, "token": g.2, "erg": format!("{}:{}", g.0, g.1), "expected": format!("{}:{}", e.0, e.1)}),
                        );
                    }
                }
                if got.len() != b.expect.len() {
                    return Outcome::fail(
                        "token count differs from lexeme count",
                        json!({"source": b.text, "erg_tokens": got.iter().map(|g| format!("{}:{} {:?}", g.0, g.1, g.2)).collect::<Vec<_>>(), "expected": b.expect.iter().map(|e| format!("{}:{} {}", e.0, e.1, e.2)).collect::<Vec<_>>()}),
                    );
                }
                // source order
                for w in got.windows(2) {
                    if (w[1].0, w[1].1) < (w[0].0, w[0].1) {
                        return Outcome::fail("tokens out of source order", json!({"source": b.text}));
                    }
                }
                let mut o = Outcome::pass(b.nontrivial_hits > 0).class("kind:built");
                o.evals = got.len().max(1) as u64;
                o
            }
        }
    }
}
