//! C07 — the checker and code generator never crash on a well-formed program.
use crate::ergx;
use crate::gen::{raw, tape_strategy, Gen, GenCfg};
use erg_parser::parse::SimpleParser;
use proptest::prelude::*;
use serde::{Deserialize, Serialize};
use serde_json::json;
use vkit::engine::{Mode, Outcome, Policy, Property, Tier};
use vkit::util::idx;

pub struct C07;

#[derive(Serialize, Deserialize, Clone, Debug)]
pub enum Case {
    /// fragment program; `damage` = ill-typing edits (site selector, replacement selector)
    Gen { tape: Vec<u32>, damage: Vec<(u32, u32)>, opt: u8, target: u8 },
    /// corpus program under a character-level mutation (kept only if it still parses)
    Corpus { file: u32, cut: u32, ins: u32, how: u8, opt: u8, target: u8 },
    Explicit { src: String, opt: u8, target: u8 },
}

const TARGETS: &[&str] = &["3.11", "3.10", "3.9", "3.8", "3.7"];

/// syntactically valid replacements that are usually ill-typed where they land
const DAMAGE: &[&str] = &[
    "\"s\"", "1.5", "[1, \"a\"]", "None", "(1, 2)", "x_undef", "(\"a\" + 1)", "[]", "{1, 2}", "{\"k\": 1}", "(a_u -> a_u)", "f_undef(1)", "(1).foo", "not(3)", "(-\"s\")", "0..5", "(if True, do 1)", "[1; 3]", "{.x = 1}",
    "print!", "Int", "(x_u: Int) -> x_u + 1", "[i_u | i_u <- [1]]",
];

fn source(case: &Case) -> (String, u8, &'static str, Vec<String>) {
    match case {
        Case::Gen { tape, damage, opt, target } => {
            let mut g = Gen::new(tape, GenCfg { avoid_known: false, ..GenCfg::default() });
            let mut prog = g.program();
            let mut feats: Vec<String> = g.features.iter().map(|s| s.to_string()).collect();
            let n = prog.count_exprs();
            if n > 0 {
                for (site, rep) in damage {
                    prog.replace_expr(idx(*site, n), raw(DAMAGE[idx(*rep, DAMAGE.len())]));
                }
            }
            feats.push(if damage.is_empty() { "kind:well-typed".into() } else { "kind:ill-typed".into() });
            (prog.to_erg(), *opt % 4, TARGETS[*target as usize % TARGETS.len()], feats)
        }
        Case::Corpus { file, cut, ins, how, opt, target } => {
            (super::c08::corpus_text(*file, *cut, *ins, *how), *opt % 4, TARGETS[*target as usize % TARGETS.len()], vec!["kind:corpus-mutation".into()])
        }
        Case::Explicit { src, opt, target } => (src.clone(), *opt % 4, TARGETS[*target as usize % TARGETS.len()], vec!["kind:explicit".into()]),
    }
}

impl Property for C07 {
    type Case = Case;
    fn id(&self) -> &'static str {
        "C07"
    }
    fn rule(&self) -> String {
        "syntactically valid programs: (a) fragment-grammar programs (including the constructs other checks leave out), (b) the same with 1-3 expression positions replaced by syntactically valid but usually ill-typed expressions (strings, records, sets, dicts, lambdas, comprehensions, ranges, undefined names, types, procedures used as values), (c) the repository's .er files cut / spliced at random points and kept only if SimpleParser still accepts them; each compiled in-process (check, optimise, generate code) at a generated opt_level 0-3 for a generated target 3.7-3.11 in a crash-isolated worker. Oracle: no panic, no abort, no hang (60 s watchdog + two fresh re-runs), and no diagnostic saying 'this is a bug of the Erg compiler' / 'This may be a bug of Erg compiler' (or CompilerSystemError). Non-trivial = parses and reaches lowering; distinct by (source, opt, target)".into()
    }
    fn strategy(&self, tier: Tier) -> BoxedStrategy<Case> {
        prop_oneof![
            3 => (tape_strategy(tier.pick(140, 280)), 0u8..4, 0u8..5).prop_map(|(tape, opt, target)| Case::Gen { tape, damage: vec![], opt, target }),
            5 => (tape_strategy(tier.pick(140, 280)), proptest::collection::vec((any::<u32>(), any::<u32>()), 1..4), 0u8..4, 0u8..5).prop_map(|(tape, damage, opt, target)| Case::Gen { tape, damage, opt, target }),
            4 => (any::<u32>(), any::<u32>(), any::<u32>(), any::<u8>(), 0u8..4, 0u8..5).prop_map(|(file, cut, ins, how, opt, target)| Case::Corpus { file, cut, ins, how, opt, target }),
        ]
        .boxed()
    }
    fn cases(&self, tier: Tier) -> usize {
        tier.pick(4_000, 100_000)
    }
    fn mode(&self) -> Mode {
        Mode::Workers
    }
    fn panic_policy(&self) -> Policy {
        Policy::Fail
    }
    fn abort_policy(&self) -> Policy {
        Policy::Fail
    }
    fn hang_policy(&self) -> Policy {
        Policy::Fail
    }
    fn render(&self, case: &Case) -> serde_json::Value {
        let (s, opt, t, _) = source(case);
        json!({"source": vkit::util::truncate(&s, 3000), "opt_level": opt, "target": t})
    }
    fn shrink_budget(&self) -> usize {
        150
    }
    fn run(&self, case: &Case) -> Outcome {
        let (src, opt, target, feats) = source(case);
        if src.contains("import") || src.contains("input!") {
            return Outcome::discard("imports-or-input");
        }
        if SimpleParser::parse(src.clone()).is_err() {
            return Outcome::discard("not-syntactically-valid");
        }
        // panics: one signature per panic site; the message is cut at the first parenthesis
        // (type and value renderings vary from program to program)
        let src2 = src.clone();
        let res = match vkit::panics::catch(move || ergx::compile(&src2, target, opt).map(|_| ())) {
            Ok(r) => r,
            Err(info) => {
                if info.origin != "erg" {
                    let mut o = Outcome::inconclusive("harness-panic");
                    o.detail = json!({"at": info.loc, "message": info.msg});
                    return o;
                }
                let head: String = info.msg.split(|ch| ch == '(' || ch == ':').next().unwrap_or("").chars().take(70).collect();
                return Outcome::fail(
                    format!("panic@{} {}", vkit::panics::norm_loc(&info.loc).split(':').next().unwrap_or(""), vkit::panics::norm_msg(head.trim())),
                    json!({"source": vkit::util::truncate(&src, 2500), "opt_level": opt, "target": target, "panic_at": info.loc, "message": vkit::util::truncate(&info.msg, 300)}),
                );
            }
        };
        match res {
            Ok(_) => Outcome::pass(true).classes(feats).class("outcome:accepted").class(format!("opt:{opt}")).class(format!("target:{target}")),
            Err(d) => {
                if let Some(x) = d.iter().find(|x| ergx::is_internal_error(x)) {
                    let msg: String = x.msg.lines().next().unwrap_or("").chars().take(80).collect();
                    let cause = x.msg.lines().find(|l| l.to_lowercase().contains("caused from") || l.to_lowercase().contains("caused by")).unwrap_or("").trim().to_string();
                    return Outcome::fail(
                        format!("internal compiler error: {} [{}]", vkit::panics::norm_msg(&strip_ansi(&msg)), vkit::panics::norm_msg(&strip_ansi(&cause))),
                        json!({"source": vkit::util::truncate(&src, 2500), "opt_level": opt, "target": target, "message": strip_ansi(&x.msg)}),
                    );
                }
                Outcome::pass(true).classes(feats).class("outcome:diagnostics").class(format!("opt:{opt}")).class(format!("target:{target}"))
            }
        }
    }
}

fn strip_ansi(s: &str) -> String {
    let mut out = String::new();
    let mut it = s.chars().peekable();
    while let Some(c) = it.next() {
        if c == '\u{1b}' {
            for d in it.by_ref() {
                if d == 'm' {
                    break;
                }
            }
        } else {
            out.push(c);
        }
    }
    out
}
