//! C16 — opcode and magic-number tables match each CPython version.
//! The domain is finite and enumerated completely (every `u8` of every table for every
//! version the table serves, every installed interpreter's magic number, every magic number
//! of CPython's own history table); `jump_abs_addr` is additionally driven with generated
//! (version, opcode, index, argument) tuples.
use erg_common::opcode::CommonOpcode;
use erg_common::opcode308::Opcode308;
use erg_common::opcode309::Opcode309;
use erg_common::opcode310::Opcode310;
use erg_common::opcode311::Opcode311;
use erg_common::serialize::{get_magic_num_bytes, get_magic_num_from_bytes, get_ver_from_magic_num};
use erg_compiler::ty::codeobj::jump_abs_addr;
use proptest::prelude::*;
use serde::{Deserialize, Serialize};
use serde_json::{json, Value};
use std::collections::BTreeMap;
use std::sync::OnceLock;
use vkit::engine::{Outcome, Property, Tier};
use vkit::util::idx;

pub struct C16;

#[derive(Serialize, Deserialize, Clone, Debug)]
pub enum Case {
    /// table entry `num` of `table` judged by interpreter `ver`
    Entry { table: String, ver: String, num: u8 },
    /// the magic number of installed interpreter `ver`
    Magic { ver: String },
    /// one row of CPython's magic-number history
    MagicHist { magic: u32, ver: String },
    /// jump target computation
    JumpAddr { ver: u32, op: u32, idx: u16, arg: u16 },
}

pub struct PyInfo {
    pub opmap: BTreeMap<String, u8>,
    pub by_num: BTreeMap<u8, String>,
    pub hasjrel: Vec<u8>,
    pub hasjabs: Vec<u8>,
    pub magic: u32,
    pub magic_bytes: Vec<u8>,
}

pub fn pyinfo(ver: &str) -> &'static PyInfo {
    static M: OnceLock<std::sync::Mutex<BTreeMap<String, &'static PyInfo>>> = OnceLock::new();
    let m = M.get_or_init(|| std::sync::Mutex::new(BTreeMap::new()));
    let mut g = m.lock().unwrap();
    if let Some(p) = g.get(ver) {
        return p;
    }
    let v = vkit::pyexec::with(ver, |p| p.call("opinfo.py", "info", Value::Null, false));
    let mut opmap = BTreeMap::new();
    let mut by_num = BTreeMap::new();
    for (k, n) in v["opmap"].as_object().expect("opmap") {
        let n = n.as_u64().unwrap();
        if n < 256 {
            opmap.insert(k.clone(), n as u8);
            by_num.insert(n as u8, k.clone());
        }
    }
    let nums = |k: &str| -> Vec<u8> { v[k].as_array().unwrap().iter().filter_map(|x| x.as_u64()).filter(|x| *x < 256).map(|x| x as u8).collect() };
    let info = Box::leak(Box::new(PyInfo {
        opmap,
        by_num,
        hasjrel: nums("hasjrel"),
        hasjabs: nums("hasjabs"),
        magic: v["magic"].as_u64().unwrap() as u32,
        magic_bytes: nums("magic_bytes"),
    }));
    g.insert(ver.to_string(), info);
    info
}

fn name_in(table: &str, num: u8) -> Option<String> {
    match table {
        "Opcode308" => Opcode308::try_from(num).ok().map(|o| format!("{o:?}")),
        "Opcode309" => Opcode309::try_from(num).ok().map(|o| format!("{o:?}")),
        "Opcode310" => Opcode310::try_from(num).ok().map(|o| format!("{o:?}")),
        "Opcode311" => Opcode311::try_from(num).ok().map(|o| format!("{o:?}")),
        "CommonOpcode" => CommonOpcode::try_from(num).ok().map(|o| format!("{o:?}")),
        _ => None,
    }
}

fn back_to_u8(table: &str, num: u8) -> Option<u8> {
    match table {
        "Opcode308" => Opcode308::try_from(num).ok().map(u8::from),
        "Opcode309" => Opcode309::try_from(num).ok().map(u8::from),
        "Opcode310" => Opcode310::try_from(num).ok().map(u8::from),
        "Opcode311" => Opcode311::try_from(num).ok().map(u8::from),
        "CommonOpcode" => CommonOpcode::try_from(num).ok().map(u8::from),
        _ => None,
    }
}

/// (table, versions whose code objects are written / read with it)
const TABLES: &[(&str, &[&str])] = &[
    ("Opcode308", &["3.7", "3.8"]),
    ("Opcode309", &["3.9"]),
    ("Opcode310", &["3.10"]),
    ("Opcode311", &["3.11"]),
    ("CommonOpcode", &["3.7", "3.8", "3.9", "3.10", "3.11"]),
];
const TARGETS: &[&str] = &["3.7", "3.8", "3.9", "3.10", "3.11"];

impl Property for C16 {
    type Case = Case;
    fn id(&self) -> &'static str {
        "C16"
    }
    fn rule(&self) -> String {
        "exhaustive: every u8 that each opcode table (Opcode308 for 3.7/3.8, Opcode309, Opcode310, Opcode311, CommonOpcode for 3.7-3.11) maps to a name is one case per served version; oracle = that interpreter's dis.opmap / hasjrel / hasjabs: the name must exist there with the same number, `u8 -> enum -> u8` must round-trip, and is_jump_op(number) must equal the interpreter's jump classification. Magic: each installed interpreter 3.7-3.12 (importlib.util.MAGIC_NUMBER) must map to its own version and get_magic_num_bytes must reproduce the four bytes; every row of CPython 3.13's magic-number history for 3.7-3.12 that erg maps at all must map to the row's version. Generated part: jump_abs_addr(version, jump opcode, index, argument) against the target the interpreter's own semantics give (relative/absolute, x2 scaling from 3.10, backward jumps in 3.11). Non-trivial = a table entry (every entry counts once per version), a magic row, or a jump-address tuple whose opcode erg handles".into()
    }
    fn assumptions(&self) -> Vec<String> {
        vec!["the installed CPython builds (one patch release per minor version) stand for their minor version".into()]
    }
    fn exhaustive(&self, _tier: Tier) -> bool {
        true
    }
    fn fixed_cases(&self, _tier: Tier) -> Vec<Case> {
        let mut v = vec![];
        for (t, vers) in TABLES {
            for ver in *vers {
                for num in 0..=255u8 {
                    if name_in(t, num).is_some() {
                        v.push(Case::Entry { table: t.to_string(), ver: ver.to_string(), num });
                    }
                }
            }
        }
        for ver in ["3.7", "3.8", "3.9", "3.10", "3.11", "3.12"] {
            v.push(Case::Magic { ver: ver.to_string() });
        }
        let hist = vkit::pyexec::with("3.13", |p| p.call("opinfo.py", "magic_history", Value::Null, false));
        for row in hist.as_array().cloned().unwrap_or_default() {
            let ver = row[1].as_str().unwrap_or("").to_string();
            if ["3.7", "3.8", "3.9", "3.10", "3.11", "3.12"].contains(&ver.as_str()) {
                v.push(Case::MagicHist { magic: row[0].as_u64().unwrap() as u32, ver });
            }
        }
        v
    }
    fn strategy(&self, _tier: Tier) -> BoxedStrategy<Case> {
        (any::<u32>(), any::<u32>(), 0u16..4000, 0u16..600)
            .prop_map(|(ver, op, idx, arg)| Case::JumpAddr { ver, op, idx, arg })
            .boxed()
    }
    fn cases(&self, tier: Tier) -> usize {
        tier.pick(20_000, 400_000)
    }
    fn run(&self, case: &Case) -> Outcome {
        match case {
            Case::Entry { table, ver, num } => {
                let Some(name) = name_in(table, *num) else { return Outcome::discard("no-entry") };
                let py = pyinfo(ver);
                if back_to_u8(table, *num) != Some(*num) {
                    return Outcome::fail(format!("{table}::{name} does not convert back to {num}"), json!({"got": back_to_u8(table, *num)}));
                }
                if name == "NOT_IMPLEMENTED" {
                    return Outcome::pass(false).class("placeholder");
                }
                match py.opmap.get(&name) {
                    Some(n) if n == num => {}
                    Some(n) => {
                        return Outcome::fail(
                            format!("{table}::{name} = {num} but Python {ver} has {name} = {n}"),
                            json!({"python_name_at_that_number": py.by_num.get(num)}),
                        )
                    }
                    // a name this interpreter does not have (pseudo-instructions reserved for
                    // Erg, entries of a neighbouring version in a shared table) cannot be
                    // judged by it: the statement is about the numbers of instructions that
                    // exist; whether the compiler writes only existing ones is C13/C14's subject
                    None => return Outcome::pass(false).class(format!("absent-in-python:{table}")),
                }
                let is_jump_py = py.hasjrel.contains(num) || py.hasjabs.contains(num);
                let is_jump_erg = CommonOpcode::is_jump_op(*num);
                if is_jump_py != is_jump_erg {
                    return Outcome::fail(
                        format!("is_jump_op({num}) = {is_jump_erg} but {name} has jump = {is_jump_py} in Python"),
                        json!({"table": table, "python": ver}),
                    );
                }
                Outcome::pass(true).class(format!("entry:{table}")).class(if is_jump_py { "jump" } else { "non-jump" })
            }
            Case::Magic { ver } => {
                let py = pyinfo(ver);
                let bytes = get_magic_num_bytes(py.magic);
                if bytes.to_vec() != py.magic_bytes {
                    return Outcome::fail(format!("get_magic_num_bytes({}) differs from Python {ver}'s MAGIC_NUMBER", py.magic), json!({"erg": bytes, "python": py.magic_bytes}));
                }
                let back = get_magic_num_from_bytes(&bytes);
                if back != py.magic {
                    return Outcome::fail(format!("get_magic_num_from_bytes does not invert get_magic_num_bytes for {}", py.magic), json!({"back": back}));
                }
                let v = get_ver_from_magic_num(py.magic); // a panic here is reported by the engine
                let got = format!("{}.{}", v.major, v.minor.unwrap_or(0));
                if &got != ver {
                    return Outcome::fail(format!("magic {} of Python {ver} maps to {got}", py.magic), Value::Null);
                }
                Outcome::pass(true).class("magic:installed")
            }
            Case::MagicHist { magic, ver } => {
                let m = *magic;
                let r = std::panic::catch_unwind(move || get_ver_from_magic_num(m));
                match r {
                    Err(_) => Outcome::pass(false).class("magic:history-unmapped"),
                    Ok(v) => {
                        let got = format!("{}.{}", v.major, v.minor.unwrap_or(0));
                        if &got != ver {
                            return Outcome::fail(format!("historic magic {magic} belongs to Python {ver} but maps to {got}"), Value::Null);
                        }
                        Outcome::pass(true).class("magic:history-mapped")
                    }
                }
            }
            Case::JumpAddr { ver, op, idx: i, arg } => {
                let ver = TARGETS[idx(*ver, TARGETS.len())];
                let py = pyinfo(ver);
                let minor: u8 = ver[2..].parse().unwrap();
                // candidate opcodes: the interpreter's jump instructions
                let mut jumps: Vec<u8> = py.hasjrel.iter().chain(py.hasjabs.iter()).cloned().collect();
                jumps.sort();
                jumps.dedup();
                let op = jumps[idx(*op, jumps.len())];
                let name = py.by_num.get(&op).cloned().unwrap_or_default();
                let i = (*i as usize) * 2;
                let arg = *arg as usize;
                let scale = if minor >= 10 { 2 } else { 1 };
                let backward = name.contains("BACKWARD");
                let expected: i64 = if py.hasjabs.contains(&op) {
                    (arg * scale) as i64
                } else if backward {
                    i as i64 + 2 - (arg * scale) as i64
                } else {
                    (i + 2 + arg * scale) as i64
                };
                if expected < 0 {
                    return Outcome::discard("target-before-code");
                }
                let r = vkit::panics::catch(move || jump_abs_addr(minor, op, i, arg));
                match r {
                    // erg's reader only resolves the jump instructions its own compiler emits
                    Err(info) if info.msg.contains("unreachable") || info.msg.contains("called `Result::unwrap()`") => {
                        Outcome::pass(false).class(format!("jumpaddr:unhandled:{name}"))
                    }
                    Err(info) => Outcome::fail(
                        format!("jump_abs_addr for {name} in Python {ver} panics: {}", vkit::panics::norm_msg(&info.msg)),
                        json!({"idx": i, "arg": arg, "expected": expected, "at": info.loc}),
                    ),
                    Ok(got) => {
                        if got as i64 != expected {
                            return Outcome::fail(
                                format!("jump_abs_addr for {name} in Python {ver} is wrong"),
                                json!({"idx": i, "arg": arg, "erg": got, "expected": expected}),
                            );
                        }
                        Outcome::pass(true).class(format!("jumpaddr:{ver}:{name}"))
                    }
                }
            }
        }
    }
}
