//! C21 — module dependency graph operations match a reference graph (stateful, model-based).
use erg_common::pathutil::NormalizedPathBuf;
use erg_common::set::Set;
use erg_common::tsort::{tsort, Node, TopoSortErrorKind};
use erg_compiler::module::graph::ModuleGraph;
use proptest::prelude::*;
use serde::{Deserialize, Serialize};
use serde_json::json;
use std::collections::{BTreeMap, BTreeSet};
use std::path::PathBuf;
use vkit::engine::{Mode, Outcome, Property, Tier};
use vkit::util::idx;

pub struct C21;

const NPATHS: usize = 8; // 6 base paths + 2 spare ones so that renames always have a target

#[derive(Serialize, Deserialize, Clone, Debug)]
pub enum Op {
    Register(u32),
    /// how every real caller adds an edge: register the target, then inc_ref(referrer, target)
    Import(u32, u32),
    /// inc_ref without registering the target first (dangling target possible)
    RawIncRef(u32, u32),
    Remove(u32),
    /// rename `old` (selector over paths in use) to an unused path (selector)
    Rename(u32, u32),
    Sort,
}

#[derive(Serialize, Deserialize, Clone, Debug)]
pub enum Case {
    Graph(Vec<Op>),
    /// tsort on an arbitrary graph: n nodes, adjacency bit matrix rows, node order permutation seed
    Tsort { n: u8, edges: Vec<(u8, u8)>, order: Vec<u8> },
}

fn path(i: usize) -> NormalizedPathBuf {
    NormalizedPathBuf::new(PathBuf::from(format!("/nonexistent-verif/m{i}.er")))
}

#[derive(Default, Clone)]
struct Model {
    /// registered nodes -> out-edges (targets may be unregistered = dangling)
    nodes: BTreeMap<usize, BTreeSet<usize>>,
}

impl Model {
    fn used(&self) -> BTreeSet<usize> {
        let mut s: BTreeSet<usize> = self.nodes.keys().cloned().collect();
        for t in self.nodes.values() {
            s.extend(t.iter().cloned());
        }
        s
    }
    fn deep(&self, from: usize, to: usize) -> bool {
        // is there a non-empty path from -> to (edges leave registered nodes only)
        let mut seen = BTreeSet::new();
        let mut st = vec![from];
        while let Some(x) = st.pop() {
            if !seen.insert(x) {
                continue;
            }
            if let Some(ts) = self.nodes.get(&x) {
                for &t in ts {
                    if t == to {
                        return true;
                    }
                    st.push(t);
                }
            }
        }
        false
    }
    fn ancestors(&self, p: usize) -> BTreeSet<usize> {
        let mut out = BTreeSet::new();
        let mut st = vec![p];
        let mut seen = BTreeSet::new();
        while let Some(x) = st.pop() {
            if !seen.insert(x) {
                continue;
            }
            if let Some(ts) = self.nodes.get(&x) {
                for &t in ts {
                    out.insert(t);
                    st.push(t);
                }
            }
        }
        out
    }
    fn children(&self, p: usize) -> BTreeSet<usize> {
        self.nodes
            .iter()
            .filter(|(_, ts)| ts.contains(&p))
            .map(|(k, _)| *k)
            .collect()
    }
    fn dangling(&self) -> bool {
        self.nodes
            .values()
            .any(|ts| ts.iter().any(|t| !self.nodes.contains_key(t)))
    }
}

fn to_idx(p: &NormalizedPathBuf) -> usize {
    let s = p.to_string_lossy().to_string();
    let d: String = s.chars().filter(|c| c.is_ascii_digit()).collect();
    d.parse().unwrap_or(999)
}

fn set_of(s: &Set<NormalizedPathBuf>) -> BTreeSet<usize> {
    s.iter().map(to_idx).collect()
}

fn compare(g: &ModuleGraph, m: &Model, step: usize, op: &str) -> Result<(), (String, serde_json::Value)> {
    let err = |what: &str, a: String, b: String| -> Result<(), (String, serde_json::Value)> {
        Err((
            format!("query:{what} after:{op}"),
            json!({"step": step, "query": what, "erg": a, "model": b}),
        ))
    };
    // entries
    let entries: BTreeSet<usize> = g.iter().map(|n| to_idx(&n.id)).collect();
    let mentries: BTreeSet<usize> = m.nodes.keys().cloned().collect();
    if entries != mentries || g.iter().count() != mentries.len() {
        return err("entries", format!("{entries:?} (len {})", g.iter().count()), format!("{mentries:?}"));
    }
    for a in 0..NPATHS {
        let pa = path(a);
        // get_node / parents
        let node = g.get_node(&pa);
        match (node, m.nodes.get(&a)) {
            (None, None) => {}
            (Some(n), Some(ts)) => {
                if to_idx(&n.id) != a {
                    return err("get_node", format!("get_node(m{a}) returned node {}", n.id), format!("m{a}"));
                }
                let got = set_of(&n.depends_on);
                if &got != ts {
                    return err("parents", format!("m{a}: {got:?}"), format!("m{a}: {ts:?}"));
                }
            }
            (x, y) => {
                return err("get_node", format!("m{a}: present={}", x.is_some()), format!("m{a}: present={}", y.is_some()));
            }
        }
        let par = g.parents(&pa).map(set_of);
        if par != m.nodes.get(&a).cloned() {
            return err("parents", format!("m{a}: {par:?}"), format!("m{a}: {:?}", m.nodes.get(&a)));
        }
        let ch: BTreeSet<usize> = g.children(&pa).map(|p| to_idx(&p)).collect();
        if ch != m.children(a) {
            return err("children", format!("m{a}: {ch:?}"), format!("m{a}: {:?}", m.children(a)));
        }
        let anc: BTreeSet<usize> = g.ancestors(&pa).iter().map(|p| to_idx(p)).collect();
        if anc != m.ancestors(a) {
            return err("ancestors", format!("m{a}: {anc:?}"), format!("m{a}: {:?}", m.ancestors(a)));
        }
        for b in 0..NPATHS {
            let pb = path(b);
            let d = g.depends_on(&pa, &pb);
            let md = m.nodes.get(&a).map(|t| t.contains(&b)).unwrap_or(false);
            if d != md {
                return err("depends_on", format!("m{a}->m{b}: {d}"), format!("{md}"));
            }
            let dd = g.deep_depends_on(&pa, &pb);
            let mdd = m.deep(a, b);
            if dd != mdd {
                return err("deep_depends_on", format!("m{a}=>m{b}: {dd}"), format!("{mdd}"));
            }
        }
    }
    Ok(())
}

fn run_graph(ops: &[Op]) -> Outcome {
    let mut g = ModuleGraph::new();
    let mut m = Model::default();
    let mut refused = 0;
    let mut mutated_then_queried = false;
    let mut classes = BTreeSet::new();
    for (step, op) in ops.iter().enumerate() {
        let opname;
        match op {
            Op::Register(a) => {
                let a = idx(*a, NPATHS);
                opname = "register";
                g.add_node_if_none(&path(a));
                m.nodes.entry(a).or_default();
            }
            Op::Import(a, b) | Op::RawIncRef(a, b) => {
                let raw = matches!(op, Op::RawIncRef(..));
                let (a, b) = (idx(*a, NPATHS), idx(*b, NPATHS));
                opname = if raw { "raw_inc_ref" } else { "import" };
                if raw && !m.nodes.contains_key(&a) {
                    // real callers never add an edge to a referrer-less graph state that the
                    // model could judge: keep the referrer registered first
                    g.add_node_if_none(&path(a));
                    m.nodes.entry(a).or_default();
                }
                if !raw {
                    g.add_node_if_none(&path(b));
                    m.nodes.entry(b).or_default();
                }
                let before: Vec<(usize, BTreeSet<usize>)> = g.iter().map(|n| (to_idx(&n.id), set_of(&n.depends_on))).collect();
                let res = g.inc_ref(&path(a), path(b));
                // model: referrer gets registered; self edge ignored; cycle refused
                let closes_cycle = a != b && m.deep(b, a);
                let was_registered = m.nodes.contains_key(&a);
                m.nodes.entry(a).or_default();
                if a == b {
                    if res.is_err() {
                        return Outcome::fail("self-import refused", json!({"step": step, "op": format!("{op:?}")}));
                    }
                } else if closes_cycle {
                    refused += 1;
                    classes.insert("refused-edge".to_string());
                    if res.is_ok() {
                        return Outcome::fail(
                            "cycle-closing edge accepted",
                            json!({"step": step, "op": format!("inc_ref(m{a}, m{b})"), "note": "model has a path m{b} => m{a}"}),
                        );
                    }
                    let after: Vec<(usize, BTreeSet<usize>)> = g.iter().map(|n| (to_idx(&n.id), set_of(&n.depends_on))).collect();
                    if was_registered && before != after {
                        return Outcome::fail(
                            "refused edge changed the graph",
                            json!({"step": step, "before": format!("{before:?}"), "after": format!("{after:?}")}),
                        );
                    }
                } else {
                    if res.is_err() {
                        return Outcome::fail(
                            "acyclic edge refused",
                            json!({"step": step, "op": format!("inc_ref(m{a}, m{b})")}),
                        );
                    }
                    m.nodes.get_mut(&a).unwrap().insert(b);
                }
            }
            Op::Remove(a) => {
                let a = idx(*a, NPATHS);
                opname = "remove";
                g.remove(&path(a));
                m.nodes.remove(&a);
                for ts in m.nodes.values_mut() {
                    ts.remove(&a);
                }
                mutated_then_queried = true;
                classes.insert("remove".to_string());
            }
            Op::Rename(o, n) => {
                opname = "rename";
                let used: Vec<usize> = m.used().into_iter().collect();
                let unused: Vec<usize> = (0..NPATHS).filter(|i| !used.contains(i)).collect();
                if used.is_empty() || unused.is_empty() {
                    continue;
                }
                let old = used[idx(*o, used.len())];
                let new = unused[idx(*n, unused.len())];
                g.rename_path(&path(old), path(new));
                if let Some(ts) = m.nodes.remove(&old) {
                    m.nodes.insert(new, ts);
                }
                for ts in m.nodes.values_mut() {
                    if ts.remove(&old) {
                        ts.insert(new);
                    }
                }
                mutated_then_queried = true;
                classes.insert("rename".to_string());
            }
            Op::Sort => {
                opname = "sort";
                if m.dangling() {
                    continue; // KeyNotFound for dangling targets is outside the statement
                }
                classes.insert("sort".to_string());
                match g.sort() {
                    Ok(()) => {
                        let order: Vec<usize> = g.iter().map(|n| to_idx(&n.id)).collect();
                        for (pos, n) in order.iter().enumerate() {
                            for d in m.nodes.get(n).cloned().unwrap_or_default() {
                                let dp = order.iter().position(|x| *x == d);
                                if dp.map(|dp| dp >= pos).unwrap_or(true) {
                                    return Outcome::fail(
                                        "sort order violates a dependency",
                                        json!({"step": step, "order": format!("{order:?}"), "node": n, "dep": d}),
                                    );
                                }
                            }
                        }
                    }
                    Err(e) => {
                        // the graph is acyclic by construction (cycles are refused)
                        return Outcome::fail(
                            format!("sort failed on acyclic graph: {:?}", e.kind),
                            json!({"step": step, "err": e.to_string()}),
                        );
                    }
                }
            }
        }
        if let Err((sig, detail)) = compare(&g, &m, step, opname) {
            return Outcome::fail(sig, detail);
        }
    }
    let nontrivial = refused > 0 || mutated_then_queried;
    let mut o = Outcome::pass(nontrivial);
    o.evals = ops.len() as u64 + 1;
    o.classes = classes.into_iter().collect();
    o.classes.push("kind:graph".into());
    o
}

fn run_tsort(n: u8, edges: &[(u8, u8)], order: &[u8]) -> Outcome {
    let n = n.max(1) as usize;
    let mut adj: BTreeMap<usize, BTreeSet<usize>> = (0..n).map(|i| (i, BTreeSet::new())).collect();
    for (a, b) in edges {
        adj.get_mut(&(*a as usize % n)).unwrap().insert(*b as usize % n);
    }
    // node order: permutation derived from `order`
    let mut ids: Vec<usize> = (0..n).collect();
    for (i, o) in order.iter().enumerate() {
        if i < n {
            let j = i + (*o as usize) % (n - i);
            ids.swap(i, j);
        }
    }
    let graph: Vec<Node<usize, ()>> = ids
        .iter()
        .map(|i| Node::new(*i, (), adj[i].iter().cloned().collect::<Set<usize>>()))
        .collect();
    // model: cycle detection by DFS colouring (self loops are cycles)
    fn has_cycle(adj: &BTreeMap<usize, BTreeSet<usize>>) -> bool {
        fn go(v: usize, adj: &BTreeMap<usize, BTreeSet<usize>>, col: &mut BTreeMap<usize, u8>) -> bool {
            col.insert(v, 1);
            for &t in &adj[&v] {
                match col.get(&t).cloned().unwrap_or(0) {
                    1 => return true,
                    0 => {
                        if go(t, adj, col) {
                            return true;
                        }
                    }
                    _ => {}
                }
            }
            col.insert(v, 2);
            false
        }
        let mut col = BTreeMap::new();
        for &v in adj.keys() {
            if col.get(&v).cloned().unwrap_or(0) == 0 && go(v, adj, &mut col) {
                return true;
            }
        }
        false
    }
    let cyc = has_cycle(&adj);
    let res = tsort(graph);
    let mut o = match res {
        Ok(sorted) => {
            if cyc {
                return Outcome::fail("tsort: cycle not reported", json!({"adj": format!("{adj:?}"), "order": format!("{ids:?}")}));
            }
            let out: Vec<usize> = sorted.iter().map(|n| n.id).collect();
            let mut perm = out.clone();
            perm.sort();
            if perm != (0..n).collect::<Vec<_>>() {
                return Outcome::fail("tsort: output is not a permutation", json!({"out": format!("{out:?}")}));
            }
            for (pos, v) in out.iter().enumerate() {
                for d in &adj[v] {
                    let dp = out.iter().position(|x| x == d).unwrap();
                    if dp >= pos {
                        return Outcome::fail("tsort: dependency order violated", json!({"out": format!("{out:?}"), "adj": format!("{adj:?}")}));
                    }
                }
            }
            Outcome::pass(!edges.is_empty())
        }
        Err(e) => {
            if !cyc || e.kind != TopoSortErrorKind::CyclicReference {
                return Outcome::fail(
                    format!("tsort: spurious error {:?}", e.kind),
                    json!({"adj": format!("{adj:?}"), "order": format!("{ids:?}"), "err": e.to_string()}),
                );
            }
            Outcome::pass(true).class("tsort-cycle")
        }
    };
    o.classes.push("kind:tsort".into());
    o
}

impl Property for C21 {
    type Case = Case;
    fn id(&self) -> &'static str {
        "C21"
    }
    fn rule(&self) -> String {
        "stateful: op sequences (register/import/raw inc_ref/remove/rename/sort, length <= 40, 6+2 paths) applied in lock-step to ModuleGraph and a BTreeMap reference graph, all queries compared for all path pairs after every op; plus tsort on arbitrary graphs <= 8 nodes. Non-trivial = sequence with >= 1 refused edge or >= 1 remove/rename followed by queries (graph), or a graph with >= 1 edge (tsort); distinct by case hash".into()
    }
    fn assumptions(&self) -> Vec<String> {
        vec![
            "paths are non-directories (is_dir false)".into(),
            "rename targets are unused paths; sort only when every dependency target is registered".into(),
        ]
    }
    fn strategy(&self, _tier: Tier) -> BoxedStrategy<Case> {
        let op = prop_oneof![
            2 => any::<u32>().prop_map(Op::Register),
            6 => (any::<u32>(), any::<u32>()).prop_map(|(a, b)| Op::Import(a, b)),
            1 => (any::<u32>(), any::<u32>()).prop_map(|(a, b)| Op::RawIncRef(a, b)),
            2 => any::<u32>().prop_map(Op::Remove),
            2 => (any::<u32>(), any::<u32>()).prop_map(|(a, b)| Op::Rename(a, b)),
            1 => Just(Op::Sort),
        ];
        let g = proptest::collection::vec(op, 0..=40).prop_map(Case::Graph);
        let t = (1u8..=8, proptest::collection::vec((0u8..8, 0u8..8), 0..14), proptest::collection::vec(any::<u8>(), 8))
            .prop_map(|(n, edges, order)| Case::Tsort { n, edges, order });
        prop_oneof![3 => g, 1 => t].boxed()
    }
    fn cases(&self, tier: Tier) -> usize {
        tier.pick(20_000, 500_000)
    }
    fn run(&self, case: &Case) -> Outcome {
        match case {
            Case::Graph(ops) => run_graph(ops),
            Case::Tsort { n, edges, order } => run_tsort(*n, edges, order),
        }
    }
    fn mode(&self) -> Mode {
        Mode::InProcess
    }
}
