//! C12 — optimisation never changes observable behaviour.
use crate::ergx;
use crate::gen::{tape_strategy, GenCfg};
use crate::progrun::{self, Compiled};
use proptest::prelude::*;
use serde::{Deserialize, Serialize};
use serde_json::json;
use vkit::engine::{Mode, Outcome, Policy, Property, Tier};

pub struct C12;

#[derive(Serialize, Deserialize, Clone, Debug)]
pub struct Case {
    pub tape: Vec<u32>,
    #[serde(default)]
    pub explicit: Option<String>,
}

fn cfg() -> GenCfg {
    GenCfg { unused_defs: true, exits: true, ..GenCfg::default() }
}

fn source(case: &Case) -> (String, Vec<String>) {
    if let Some(s) = &case.explicit {
        return (s.clone(), vec!["explicit-source".into()]);
    }
    let b = progrun::build(&case.tape, cfg());
    (b.erg, b.features)
}

impl Property for C12 {
    type Case = Case;
    fn id(&self) -> &'static str {
        "C12"
    }
    fn rule(&self) -> String {
        "programs of the fragment grammar in which bindings are not printed automatically (so private variables, functions and lambdas stay unused at random) plus definitions with side effects: procedures `q!() = print! ..; v`, bindings initialised by a procedure call, by `print!` used as a value, by a block that prints, and initialisers that raise (division by zero). Oracle: the program is compiled in-process at opt_level 0, 1, 2 and 3 and each bytecode is run; printed bytes, uncaught exception type and exit status must all equal level 0's; a difference is re-run in fresh interpreter processes before it is reported. Non-trivial = accepted at all levels, >= 1 effect definition and >= 1 other definition; distinct by source text".into()
    }
    fn strategy(&self, tier: Tier) -> BoxedStrategy<Case> {
        tape_strategy(tier.pick(140, 300)).prop_map(|tape| Case { tape, explicit: None }).boxed()
    }
    fn cases(&self, tier: Tier) -> usize {
        tier.pick(1_500, 40_000)
    }
    fn mode(&self) -> Mode {
        Mode::Workers
    }
    fn panic_policy(&self) -> Policy {
        Policy::Discard
    }
    fn abort_policy(&self) -> Policy {
        Policy::Discard
    }
    fn setup(&self) {
        ergx::warm_python("3.11");
    }
    fn render(&self, case: &Case) -> serde_json::Value {
        json!(source(case).0)
    }
    fn shrink_budget(&self) -> usize {
        100
    }
    fn run(&self, case: &Case) -> Outcome {
        let (src, features) = source(case);
        let mut runs = vec![];
        for opt in 0u8..=3 {
            match progrun::compile(&src, "3.11", opt) {
                Compiled::Ok(c) => {
                    let r = ergx::run_pyc(&c.pyc, "3.11", 30.0);
                    if r.timeout || r.died {
                        return Outcome::inconclusive("run-timeout-or-died");
                    }
                    runs.push((opt, c.pyc, r));
                }
                Compiled::Rejected(d) => {
                    if opt == 0 {
                        return progrun::rejected_outcome(&d);
                    }
                    // the checker's verdict does not depend on opt_level; an unstable verdict
                    // between repeated in-process compilations is C19's subject, not C12's
                    let _ = d;
                    return Outcome::discard("checker-verdict-differs-between-compilations");
                }
            }
        }
        let base = runs[0].2.clone();
        for (opt, pyc, r) in runs.iter().skip(1) {
            if !progrun::same_obs(&base, r) {
                // fresh-process confirmation of both levels
                let dir = vkit::util::work_dir();
                let (p0, p1) = (dir.join("c12_o0.pyc"), dir.join("c12_on.pyc"));
                let _ = std::fs::write(&p0, &runs[0].1);
                let _ = std::fs::write(&p1, pyc);
                let a = vkit::pyexec::fresh_run_pyc("3.11", &p0, None);
                let b = vkit::pyexec::fresh_run_pyc("3.11", &p1, None);
                if a.0 == b.0 && a.2 == b.2 && vkit::pyexec::exc_type_from_stderr(&a.1) == vkit::pyexec::exc_type_from_stderr(&b.1) {
                    return Outcome::inconclusive("difference-not-confirmed-in-fresh-processes");
                }
                let kind = progrun::diff_kind(r, &base).replace("compiled program", &format!("-o {opt} build")).replace("the source means", "-o 0 has");
                let sig = if case.explicit.is_some() { format!("pinned: {kind}") } else { kind };
                return Outcome::fail(sig, json!({"erg": src, "o0": base.summary(), "level": opt, "optimised": r.summary()}));
            }
        }
        let effects = features.iter().filter(|f| f.starts_with("effect:")).count();
        let mut o = Outcome::pass(effects >= 1 && features.len() >= 3).classes(features);
        if base.exc.is_some() {
            o = o.class(format!("path:exception:{}", base.exc.clone().unwrap()));
        }
        o
    }
}
