//! C19 — compilation output is deterministic and schedule-independent.
use crate::projgen::{self, Proj};
use proptest::prelude::*;
use serde::{Deserialize, Serialize};
use serde_json::json;
use vkit::engine::{Mode, Outcome, Policy, Property, Tier};

pub struct C19;

#[derive(Serialize, Deserialize, Clone, Debug)]
pub struct Case {
    pub proj: Proj,
    pub jitter: Vec<u32>,
}

struct Build {
    pyc_body: Option<Vec<u8>>,
    diags: Vec<String>,
    code: Option<i32>,
    timed_out: bool,
}

/// diagnostics as a sorted multiset of lines, with generated variable numbers masked
fn diag_lines(text: &str) -> Vec<String> {
    let mut v: Vec<String> = projgen::strip_ansi(text)
        .lines()
        .map(|l| l.trim_end().to_string())
        .filter(|l| !l.is_empty())
        .map(|l| {
            // %v_global_123 / %v123 -> %v#
            let mut out = String::new();
            let mut it = l.chars().peekable();
            while let Some(c) = it.next() {
                out.push(c);
                if c == '%' {
                    while let Some(&d) = it.peek() {
                        if d.is_ascii_alphabetic() || d == '_' {
                            out.push(d);
                            it.next();
                        } else {
                            break;
                        }
                    }
                    let mut had = false;
                    while let Some(&d) = it.peek() {
                        if d.is_ascii_digit() {
                            had = true;
                            it.next();
                        } else {
                            break;
                        }
                    }
                    if had {
                        out.push('#');
                    }
                }
            }
            out
        })
        .collect();
    v.sort();
    v
}

fn build(exe: &std::path::Path, dir: &std::path::Path, jitter: Option<u32>) -> Option<Build> {
    let _ = std::fs::remove_file(dir.join("main.pyc"));
    let mut c = std::process::Command::new(exe);
    c.arg("compile").arg("main.er").current_dir(dir);
    match jitter {
        Some(j) => c.env("ERG_VERIF_JITTER", j.to_string()),
        None => c.env_remove("ERG_VERIF_JITTER"),
    };
    let r = projgen::run_limited(c, 120.0).ok()?;
    let pyc = std::fs::read(dir.join("main.pyc")).ok();
    Some(Build {
        pyc_body: pyc.map(|b| if b.len() >= 16 { b[16..].to_vec() } else { b }),
        diags: diag_lines(&format!("{}\n{}", r.stdout, r.stderr)),
        code: r.code,
        timed_out: r.timed_out,
    })
}

impl Property for C19 {
    type Case = Case;
    fn id(&self) -> &'static str {
        "C19"
    }
    fn rule(&self) -> String {
        "multi-module projects from the C20 generator (1-8 modules, DAGs, diamonds, cycles, self-imports; projects the checker rejects are kept, their diagnostics are the output). Each project is compiled by `erg compile main.er` in fresh processes: once plainly, twice more with generated start delays of 0-30 ms per analysis thread (hook ERG_VERIF_JITTER, a different seed each time), and once by a build of the CLI without the `parallel` feature. Oracle: bytes 16.. of main.pyc, the exit status and the sorted multiset of diagnostic lines (generated variable numbers masked) of every build equal those of the first. Non-trivial = >= 3 modules; distinct by project".into()
    }
    fn strategy(&self, _tier: Tier) -> BoxedStrategy<Case> {
        (projgen::proj_strategy(), proptest::collection::vec(any::<u32>(), 2)).prop_map(|(proj, jitter)| Case { proj, jitter }).boxed()
    }
    fn cases(&self, tier: Tier) -> usize {
        tier.pick(100, 4_000)
    }
    fn mode(&self) -> Mode {
        Mode::Workers
    }
    fn timeout_s(&self) -> f64 {
        600.0
    }
    fn shrink_budget(&self) -> usize {
        40
    }
    fn panic_policy(&self) -> Policy {
        Policy::Discard
    }
    fn render(&self, case: &Case) -> serde_json::Value {
        case.proj.render()
    }
    fn run(&self, case: &Case) -> Outcome {
        let Some(exe) = projgen::cli("erg-cli") else { return Outcome::inconclusive("no-erg-cli") };
        let seq = projgen::cli("erg-cli-seq");
        let p = &case.proj;
        let dir = vkit::util::work_dir().join(format!("c19-{:016x}", vkit::util::hash_str(&serde_json::to_string(p).unwrap())));
        let _ = std::fs::remove_dir_all(&dir);
        if p.write_to(&dir).is_err() {
            return Outcome::inconclusive("cannot-write-project");
        }
        let mut classes = p.shape_classes();
        let Some(base) = build(&exe, &dir, None) else { return Outcome::inconclusive("cannot-run-erg-cli") };
        if base.timed_out {
            let _ = std::fs::remove_dir_all(&dir);
            return Outcome::inconclusive("compile-timeout");
        }
        classes.push(format!("first-build:{}", if base.pyc_body.is_some() { "bytecode" } else { "rejected" }));
        let mut variants: Vec<(String, std::path::PathBuf, Option<u32>)> = case.jitter.iter().map(|j| (format!("parallel build, jitter seed {j}"), exe.clone(), Some(*j))).collect();
        match &seq {
            Some(s) => variants.push(("build without the parallel feature".to_string(), s.clone(), None)),
            None => classes.push("sequential-build:missing".into()),
        }
        for (what, bin, j) in variants {
            let Some(b) = build(&bin, &dir, j) else { continue };
            if b.timed_out {
                classes.push("variant-timeout".into());
                continue;
            }
            let kind = if what.starts_with("parallel") { "a repeated parallel build with other thread timing" } else { "the sequential build" };
            let diff = if b.pyc_body.is_some() != base.pyc_body.is_some() || b.code != base.code {
                Some("verdict (bytecode produced / exit status)")
            } else if b.pyc_body != base.pyc_body {
                Some("bytecode")
            } else if b.diags != base.diags {
                Some("diagnostics")
            } else {
                None
            };
            if let Some(d) = diff {
                let only_a: Vec<&String> = base.diags.iter().filter(|l| !b.diags.contains(l)).take(6).collect();
                let only_b: Vec<&String> = b.diags.iter().filter(|l| !base.diags.contains(l)).take(6).collect();
                let cyclic = classes.iter().any(|c| c.contains("cycle") || c.contains("self-import"));
                let sig = if cyclic && d != "bytecode" {
                    "builds of one project with an import cycle or self-import disagree on verdict or diagnostics (which names of a cycle partner are visible depends on thread timing / on the parallel feature)".to_string()
                } else {
                    format!("{kind} differs from the first build in its {d}{}", if cyclic { "" } else { " (acyclic project)" })
                };
                let out = Outcome::fail(
                    sig,
                    json!({"variant": what, "project": p.render(), "exit_first": base.code, "exit_variant": b.code,
                           "bytecode_len_first": base.pyc_body.as_ref().map(|x| x.len()), "bytecode_len_variant": b.pyc_body.as_ref().map(|x| x.len()),
                           "diagnostic_lines_only_in_first": only_a, "diagnostic_lines_only_in_variant": only_b}),
                )
                .classes(classes);
                let _ = std::fs::remove_dir_all(&dir);
                return out;
            }
        }
        let _ = std::fs::remove_dir_all(&dir);
        let live = p.reach(0).len() + 1;
        Outcome::pass(live >= 3).classes(classes)
    }
}
