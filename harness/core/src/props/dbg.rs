//! developer helpers: `vcheck dbg <what> <file>`
use erg_common::traits::DequeStream;
use erg_parser::lex::Lexer;
use erg_parser::ParserRunner;
use erg_parser::parse::SimpleParser;

pub fn main() -> i32 {
    let argv: Vec<String> = std::env::args().collect();
    let what = argv.get(2).map(|s| s.as_str()).unwrap_or("");
    let src = argv.get(3).map(|p| std::fs::read_to_string(p).unwrap_or_else(|_| p.clone())).unwrap_or_default();
    match what {
        "lex" => match Lexer::from_str(src).lex() {
            Ok(ts) => {
                for t in ts.iter() {
                    println!("{:?} {:?} line {} col {}..{}", t.kind, t.content, t.lineno, t.col_begin, t.col_end);
                }
            }
            Err((ts, errs)) => println!("ERR {errs:?}\npartial: {ts:?}"),
        },
        "parse" => match SimpleParser::parse(src) {
            Ok(art) => println!("{:#?}", art.ast),
            Err(iart) => println!("ERR {:?}", iart.errors),
        },
        "fp" => match crate::props::c10::fingerprint(&src) {
            Ok(f) => println!("{}", vkit::util::hash_str(&f)),
            Err(e) => println!("ERR {e}"),
        },
        "c10src" => {
            let v: serde_json::Value = serde_json::from_str(&src).unwrap();
            let case: crate::props::c10::Case = serde_json::from_value(v["case"].clone()).unwrap();
            println!("{}", crate::props::c10::rewritten(&case));
        }
        "timecompile" => {
            for _ in 0..4 {
                let t = std::time::Instant::now();
                let r = crate::ergx::compile(&src, "3.11", 1);
                let t1 = t.elapsed();
                match r {
                    Ok(c) => {
                        let rr = crate::ergx::run_pyc(&c.pyc, "3.11", 20.0);
                        println!("compile {:?} total {:?} -> {:?} {:?}", t1, t.elapsed(), rr.stdout_str(), rr.exc);
                    }
                    Err(d) => println!("compile {:?} errors {:?}", t1, d),
                }
            }
        }
        "genstats" => {
            // developer aid: acceptance statistics of the fragment generator
            let n: usize = argv.get(3).and_then(|s| s.parse().ok()).unwrap_or(200);
            let mut x: u64 = 0x9e3779b97f4a7c15;
            let mut by: std::collections::BTreeMap<String, (usize, String)> = Default::default();
            let mut ok = 0;
            for _ in 0..n {
                let tape: Vec<u32> = (0..160).map(|_| { x ^= x << 13; x ^= x >> 7; x ^= x << 17; (x >> 16) as u32 }).collect();
                let b = crate::progrun::build(&tape, crate::gen::GenCfg::default());
                match crate::ergx::compile(&b.erg, "3.11", 1) {
                    Ok(_) => ok += 1,
                    Err(d) => {
                        if let Some(e) = d.iter().find(|d| !d.is_warning) {
                            let line = e.ln_begin.and_then(|l| b.erg.lines().nth(l as usize - 1)).unwrap_or("").to_string();
                            let key = format!("{} {}", e.kind, vkit::panics::norm_msg(&e.msg.chars().take(90).collect::<String>()));
                            if !by.contains_key(&key) {
                                let _ = std::fs::write(format!("/verif/target/work/t/rej{}.er", by.len()), &b.erg);
                            }
                            let ent = by.entry(key).or_insert((0, line));
                            ent.0 += 1;
                        }
                    }
                }
            }
            println!("accepted {ok}/{n}");
            let mut v: Vec<_> = by.into_iter().collect();
            v.sort_by(|a, b| b.1 .0.cmp(&a.1 .0));
            for (k, (c, line)) in v.into_iter().take(25) {
                println!("{c:4} {k}\n       e.g. {}", vkit::util::truncate(&line, 200));
            }
        }
        "parse1" => match SimpleParser::parse(src) {
            Ok(art) => println!("{}", art.ast),
            Err(iart) => println!("ERR {:?}", iart.errors),
        },
        _ => {
            let _ = ParserRunner::new;
            eprintln!("dbg lex|parse|parse1 <file-or-text>");
        }
    }
    0
}
