//! developer helpers: `vcheck dbg <what> <file>`
use erg_common::traits::DequeStream;
use erg_parser::lex::Lexer;
use erg_parser::ParserRunner;
use erg_parser::parse::SimpleParser;

pub fn main() -> i32 {
    let argv: Vec<String> = std::env::args().collect();
    let what = argv.get(2).map(|s| s.as_str()).unwrap_or("");
    let src = argv.get(3).map(|p| std::fs::read_to_string(p).unwrap_or_else(|_| p.clone())).unwrap_or_default();
    match what {
        "lex" => match Lexer::from_str(src).lex() {
            Ok(ts) => {
                for t in ts.iter() {
                    println!("{:?} {:?} line {} col {}..{}", t.kind, t.content, t.lineno, t.col_begin, t.col_end);
                }
            }
            Err((ts, errs)) => println!("ERR {errs:?}\npartial: {ts:?}"),
        },
        "parse" => match SimpleParser::parse(src) {
            Ok(art) => println!("{:#?}", art.ast),
            Err(iart) => println!("ERR {:?}", iart.errors),
        },
        "fp" => match crate::props::c10::fingerprint(&src) {
            Ok(f) => println!("{}", vkit::util::hash_str(&f)),
            Err(e) => println!("ERR {e}"),
        },
        "c10src" => {
            let v: serde_json::Value = serde_json::from_str(&src).unwrap();
            let case: crate::props::c10::Case = serde_json::from_value(v["case"].clone()).unwrap();
            println!("{}", crate::props::c10::rewritten(&case));
        }
        "timecompile" => {
            for _ in 0..4 {
                let t = std::time::Instant::now();
                let r = crate::ergx::compile(&src, "3.11", 1);
                let t1 = t.elapsed();
                match r {
                    Ok(c) => {
                        let rr = crate::ergx::run_pyc(&c.pyc, "3.11", 20.0);
                        println!("compile {:?} total {:?} -> {:?} {:?}", t1, t.elapsed(), rr.stdout_str(), rr.exc);
                    }
                    Err(d) => println!("compile {:?} errors {:?}", t1, d),
                }
            }
        }
        "parse1" => match SimpleParser::parse(src) {
            Ok(art) => println!("{}", art.ast),
            Err(iart) => println!("ERR {:?}", iart.errors),
        },
        _ => {
            let _ = ParserRunner::new;
            eprintln!("dbg lex|parse|parse1 <file-or-text>");
        }
    }
    0
}
