//! C27 — stdlib declarations name attributes that really exist.
//! Finite domain, enumerated completely: every public top-level entry of every declaration
//! module under lib/pystd, as the compiler itself loads it (VarInfo.py_name is the string
//! code generation emits).
use erg_common::config::ErgConfig;
use erg_common::io::Input;
use erg_common::pathutil::NormalizedPathBuf;
use erg_compiler::build_package::PackageBuilder;
use erg_compiler::module::SharedCompilerResource;
use proptest::prelude::*;
use serde::{Deserialize, Serialize};
use serde_json::{json, Value};
use std::collections::{BTreeMap, BTreeSet};
use std::path::{Path, PathBuf};
use std::sync::Mutex;
use vkit::engine::{Mode, Outcome, Property, Tier};
use vkit::util::{hash_str, repo_root};

pub struct C27;

#[derive(Serialize, Deserialize, Clone, Debug)]
pub struct Case {
    /// Python module name, e.g. "os.path"
    pub module: String,
    /// declaration file, relative to lib/pystd
    pub file: String,
}

pub fn pystd_root() -> PathBuf {
    repo_root().join("crates/erg_compiler/lib/pystd")
}

/// every declaration file with the Python module name it declares
pub fn decl_files() -> Vec<(String, PathBuf)> {
    fn walk(dir: &Path, prefix: &str, out: &mut Vec<(String, PathBuf)>) {
        let mut ents: Vec<_> = std::fs::read_dir(dir).map(|r| r.filter_map(|e| e.ok()).collect()).unwrap_or_default();
        ents.sort_by_key(|e| e.file_name());
        for e in ents {
            let name = e.file_name().to_string_lossy().to_string();
            let p = e.path();
            if p.is_dir() {
                if let Some(stem) = name.strip_suffix(".d") {
                    let m = if prefix.is_empty() { stem.to_string() } else { format!("{prefix}.{stem}") };
                    walk(&p, &m, out);
                }
            } else if let Some(stem) = name.strip_suffix(".d.er") {
                if stem == "__init__" {
                    out.push((prefix.to_string(), p));
                } else {
                    let m = if prefix.is_empty() { stem.to_string() } else { format!("{prefix}.{stem}") };
                    out.push((m, p));
                }
            }
        }
    }
    let mut out = vec![];
    walk(&pystd_root(), "", &mut out);
    out
}

/// (erg name, python name) of every public entry of the declaration module `module`,
/// obtained by letting the compiler import it
pub fn entries_of(module: &str, file: &Path) -> Result<Vec<(String, String)>, String> {
    let src = format!("m = pyimport \"{}\"\n", module.replace('.', "/"));
    let cfg = ErgConfig { input: Input::str(src.clone()), ..ErgConfig::default() };
    let shared = SharedCompilerResource::new(cfg.clone());
    let mut b = PackageBuilder::new_with_cache(cfg, "<module>".into(), shared.clone());
    let res = b.build(src, "exec");
    let want = NormalizedPathBuf::new(file.to_path_buf());
    let mut out = vec![];
    let mut found = false;
    for (path, entry) in shared.py_mod_cache.raw_iter() {
        if *path != want {
            continue;
        }
        found = true;
        for (name, vi) in entry.module.context.local_dir() {
            if !vi.vis.is_public() {
                continue;
            }
            let erg = name.inspect().to_string();
            let py = match &vi.py_name {
                Some(p) => p.to_string(),
                None => erg.replace('!', "__erg_proc__").replace('$', "__erg_shared__"),
            };
            out.push((erg, py));
        }
    }
    if !found {
        let errs = match res {
            Ok(_) => "no error".to_string(),
            Err(e) => vkit::util::truncate(&e.errors.to_string(), 400),
        };
        let have: Vec<String> = shared.py_mod_cache.raw_iter().map(|(p, _)| p.display().to_string()).take(5).collect();
        return Err(format!("declaration module {module} was not loaded from {}: {errs}; cache has {have:?}", file.display()));
    }
    out.sort();
    out.dedup();
    Ok(out)
}

const VERS: &[&str] = &["3.11", "3.12", "3.13", "3.10", "3.9", "3.8", "3.7"];

fn names_in(ver: &str, module: &str) -> Option<BTreeSet<String>> {
    static CACHE: Mutex<BTreeMap<(String, String), Option<BTreeSet<String>>>> = Mutex::new(BTreeMap::new());
    let key = (ver.to_string(), module.to_string());
    if let Some(v) = CACHE.lock().unwrap().get(&key) {
        return v.clone();
    }
    let func = if ver == "vt" { "stub_names" } else { "dir_of" };
    let v = vkit::pyexec::with(ver, |p| p.call("stdattr.py", func, json!({"module": module}), ver != "vt"));
    let r = v.get("names").and_then(|n| n.as_array()).map(|a| a.iter().filter_map(|x| x.as_str().map(|s| s.to_string())).collect::<BTreeSet<_>>());
    CACHE.lock().unwrap().insert(key, r.clone());
    r
}

impl Property for C27 {
    type Case = Case;
    fn id(&self) -> &'static str {
        "C27"
    }
    fn rule(&self) -> String {
        "exhaustive: every public top-level entry of every declaration file under lib/pystd (module name from the file path, entries and Python names read from the module context the compiler builds for `m = pyimport M`) is one evaluation (a case is one declaration file). Oracle: the Python name is an attribute of importlib.import_module(M) in at least one installed interpreter 3.7-3.13, or is defined (in any platform/version branch, directly or through star/explicit re-exports) in the typeshed stub of M. Non-trivial = every declaration; distinct by (module, name)".into()
    }
    fn assumptions(&self) -> Vec<String> {
        vec![
            "non-Linux platforms are represented by typeshed's platform-conditional definitions only".into(),
            "installed interpreters: one patch release per minor version 3.7-3.13".into(),
        ]
    }
    fn exhaustive(&self, _tier: Tier) -> bool {
        true
    }
    fn fixed_cases(&self, _tier: Tier) -> Vec<Case> {
        let root = pystd_root();
        decl_files()
            .into_iter()
            .map(|(module, file)| Case { module, file: file.strip_prefix(&root).unwrap_or(&file).to_string_lossy().to_string() })
            .collect()
    }
    fn strategy(&self, _tier: Tier) -> BoxedStrategy<Case> {
        Just(Case { module: String::new(), file: String::new() }).boxed()
    }
    fn cases(&self, _tier: Tier) -> usize {
        0
    }
    fn mode(&self) -> Mode {
        Mode::Workers
    }
    fn timeout_s(&self) -> f64 {
        300.0
    }
    fn run(&self, case: &Case) -> Outcome {
        if case.module.is_empty() {
            return Outcome::discard("empty");
        }
        let entries = match entries_of(&case.module, &pystd_root().join(&case.file)) {
            Ok(e) => e,
            Err(e) => {
                // the declaration file could not be loaded through the compiler: cannot be judged
                let mut o = Outcome::inconclusive("decl-module-not-loaded");
                o.detail = json!(e);
                return o;
            }
        };
        let mut missing: Vec<String> = vec![];
        let mut classes: BTreeSet<String> = BTreeSet::new();
        let mut subs = vec![];
        let mut importable: BTreeSet<&str> = BTreeSet::new();
        'entry: for (erg_name, py_name) in &entries {
            subs.push(hash_str(&format!("{}.{}", case.module, erg_name)));
            if py_name != erg_name {
                classes.insert("has-renamed-entry".into());
            }
            for ver in VERS {
                if let Some(names) = names_in(ver, &case.module) {
                    importable.insert(*ver);
                    if names.contains(py_name) {
                        classes.insert(format!("found:python{ver}"));
                        continue 'entry;
                    }
                }
            }
            if let Some(names) = names_in("vt", &case.module) {
                importable.insert("typeshed");
                if names.contains(py_name) {
                    classes.insert("found:typeshed-only".into());
                    continue 'entry;
                }
            }
            missing.push(if py_name == erg_name { py_name.clone() } else { format!("{py_name} (declared as {erg_name})") });
        }
        if entries.is_empty() {
            // nothing declared: only the module itself must exist somewhere
            for ver in VERS.iter().chain(["vt"].iter()) {
                if names_in(ver, &case.module).is_some() {
                    importable.insert(*ver);
                    break;
                }
            }
        }
        if importable.is_empty() {
            return Outcome::fail(format!("module {} exists in no installed interpreter and has no typeshed stub", case.module), Value::Null);
        }
        if !missing.is_empty() {
            let mut o = Outcome::fail(
                format!("{}: {} not found in any interpreter or stub", case.module, missing.join(", ")),
                json!({"file": case.file, "declarations": entries.len(), "module_found_in": importable}),
            );
            o.evals = entries.len() as u64;
            return o;
        }
        let mut o = Outcome::pass(!entries.is_empty());
        o.evals = entries.len().max(1) as u64;
        o.sub_nontrivial = subs;
        o.classes = classes.into_iter().collect();
        o
    }
}
