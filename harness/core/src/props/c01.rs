//! C01 — compiled bytecode computes what the source means.
use crate::gen::{tape_strategy, GenCfg};
use crate::progrun::{self, Compiled};
use crate::ergx;
use proptest::prelude::*;
use serde::{Deserialize, Serialize};
use serde_json::json;
use vkit::engine::{Mode, Outcome, Policy, Property, Tier};

pub struct C01;

#[derive(Serialize, Deserialize, Clone, Debug)]
pub struct Case {
    pub tape: Vec<u32>,
    /// explicit (erg source, python reference) for pinned replays of recorded findings
    #[serde(default)]
    pub explicit: Option<(String, String)>,
    /// pinned replay of a finding whose signature generated cases share
    #[serde(default)]
    pub generated_signature: bool,
}

fn built(case: &Case) -> progrun::Built {
    let mut b = progrun::build(&case.tape, cfg());
    if let Some((e, p)) = &case.explicit {
        b.erg = e.clone();
        b.py = p.clone();
        b.features = vec!["explicit-source".into()];
    }
    b
}

pub fn cfg() -> GenCfg {
    GenCfg::default()
}

impl Property for C01 {
    type Case = Case;
    fn id(&self) -> &'static str {
        "C01"
    }
    fn rule(&self) -> String {
        "programs of the typed fragment grammar (annotated/unannotated bindings of Nat/Int/Float/Str/Bool/homogeneous lists; + - * / // % ** comparisons and/or/not unary minus; string + * interpolation upper/lower; len str abs max min succ pred in index; if expressions and if! statements; functions with default and keyword arguments; lambdas; for! over ranges and lists; while! with a !Nat counter; list and tuple pattern definitions; assert; exit; literals include naturals >= 2**31, -2**31, signed zeros, non-ASCII text) built by construction from a choice tape. Oracle: the bytecode compiled in-process for Python 3.11 (default optimisation level) must print the same bytes, end with the same uncaught exception type and the same exit status as the Python program printed from the same tree by an independent translator; a mismatch is re-run in fresh interpreter processes before it is reported. Programs the checker rejects are discarded (rate reported). Non-trivial = accepted, executes >= 1 print! and uses >= 3 distinct construct kinds; distinct by source text".into()
    }
    fn assumptions(&self) -> Vec<String> {
        vec!["the reference translator (gen.rs to_python, ~150 lines) encodes the Python-semantics reading of the fragment".into()]
    }
    fn strategy(&self, tier: Tier) -> BoxedStrategy<Case> {
        tape_strategy(tier.pick(160, 320)).prop_map(|tape| Case { tape, explicit: None, generated_signature: false }).boxed()
    }
    fn cases(&self, tier: Tier) -> usize {
        tier.pick(3_000, 80_000)
    }
    fn mode(&self) -> Mode {
        Mode::Workers
    }
    fn panic_policy(&self) -> Policy {
        Policy::Discard // compiler crashes are C07's subject
    }
    fn abort_policy(&self) -> Policy {
        Policy::Discard
    }
    fn setup(&self) {
        ergx::warm_python("3.11");
    }
    fn render(&self, case: &Case) -> serde_json::Value {
        let b = built(case);
        json!({"erg": b.erg, "python": b.py})
    }
    fn shrink_budget(&self) -> usize {
        120
    }
    fn run(&self, case: &Case) -> Outcome {
        let b = built(case);
        let compiled = match progrun::compile(&b.erg, "3.11", 1) {
            Compiled::Ok(c) => c,
            Compiled::Rejected(d) => return progrun::rejected_outcome(&d),
        };
        let er = ergx::run_pyc(&compiled.pyc, "3.11", 30.0);
        let pr = ergx::run_py(&b.py, "3.11", 30.0);
        if er.timeout || pr.timeout || er.died || pr.died {
            return Outcome::inconclusive("run-timeout-or-died");
        }
        if pr.phase == "load" && pr.exc.is_some() {
            // the reference program itself is not valid Python: a harness bug, never a verdict
            let mut o = Outcome::inconclusive("reference-not-valid-python");
            o.detail = json!({"python": b.py, "msg": pr.msg});
            return o;
        }
        let classes: Vec<String> = b.features.clone();
        if progrun::same_obs(&er, &pr) {
            let nt = !er.stdout.is_empty() && b.features.len() >= 3;
            let mut o = Outcome::pass(nt).classes(classes);
            if er.exc.is_some() {
                o = o.class(format!("path:exception:{}", er.exc.clone().unwrap()));
            }
            if er.status != 0 && er.exc.is_none() {
                o = o.class("path:exit-status");
            }
            return o;
        }
        // confirm in fresh processes along the product path
        let Some(fresh) = progrun::confirm_fresh(&compiled.pyc, &b.py, "3.11") else {
            return Outcome::inconclusive("mismatch-not-confirmed-in-fresh-processes");
        };
        let (l1, l2) = progrun::first_diff_line(&er.stdout_str(), &pr.stdout_str());
        let mut kind = progrun::diff_kind(&er, &pr);
        if kind.starts_with("compiled program raises ValueError: Nat can't be negative") {
            // the recorded family needs a loop body; a straight-line program is another matter
            let ctx = if b.erg.contains("for! ") || b.erg.contains("while! ") { "inside a loop" } else { "straight-line code" };
            kind = format!("{kind} ({ctx})");
        }
        // pinned explicit-source replays never share a signature with generated cases
        let sig = if case.explicit.is_some() && !case.generated_signature { format!("pinned: {kind}") } else { kind };
        Outcome::fail(
            sig,
            json!({"erg": b.erg, "python": b.py, "compiled": er.summary(), "reference": pr.summary(), "first_differing_line": {"compiled": l1, "reference": l2}, "fresh": fresh}),
        )
    }
}
