//! C22 — functions cannot perform side effects.
use crate::ergx;
use proptest::prelude::*;
use serde::{Deserialize, Serialize};
use serde_json::json;
use vkit::engine::{Mode, Outcome, Policy, Property, Tier};

pub struct C22;

#[derive(Serialize, Deserialize, Clone, Debug)]
pub struct Case {
    /// where the effect sits
    pub template: u8,
    /// which effect
    pub effect: u8,
    /// pure wrappers around the effect expression, innermost first
    pub wraps: Vec<u8>,
    /// extra pure statements before the effectful one
    pub prefix: u8,
}

const TEMPLATES: &[&str] = &["bind", "arg", "nested-arg", "if-arm", "list-elem", "record-field", "lambda-body", "tuple-elem", "block-value", "kw-arg", "bind-bang-name"];
const EFFECTS: &[&str] = &["proc-call", "print", "proc-method", "read-outer-mut", "proc-with-arg"];
const WRAPS: &[&str] = &["id", "plus", "paren", "list-index", "if"];

struct Ctx {
    name: &'static str,
    header: &'static str,
    indent: &'static str,
    do_kw: &'static str,
    if_kw: &'static str,
    arrow: &'static str,
    lam: &'static str,
}

const CTXS: &[Ctx] = &[
    Ctx { name: "function", header: "f() =\n", indent: "    ", do_kw: "do", if_kw: "if", arrow: "->", lam: "g" },
    Ctx { name: "procedure", header: "p!() =\n", indent: "    ", do_kw: "do!", if_kw: "if!", arrow: "=>", lam: "g!" },
    Ctx { name: "toplevel", header: "", indent: "", do_kw: "do!", if_kw: "if!", arrow: "=>", lam: "g!" },
];

const PRELUDE: &str = "q!() =\n    print! \"q\"\n    1\nr!(n: Nat) =\n    print! n\n    n\nid_(n: Nat): Nat = n\nkw_(a: Nat, b := 0): Nat = a + b\ncnt = !0\n";

/// an effectful expression of type Nat, or None when the effect is a statement
fn effect_expr(effect: &str) -> Option<&'static str> {
    match effect {
        "proc-call" => Some("q!()"),
        "proc-with-arg" => Some("r!(2)"),
        "read-outer-mut" => Some("(cnt + 1)"),
        _ => None,
    }
}

fn wrap(e: String, w: &str, c: &Ctx) -> String {
    match w {
        "id" => format!("id_({e})"),
        "plus" => format!("({e} + 1)"),
        "paren" => format!("({e})"),
        "list-index" => format!("[0, {e}][1]"),
        _ => format!("{}(True, {} {e}, {} 0)", c.if_kw, c.do_kw, c.do_kw),
    }
}

/// the body lines (without indentation) for one context; None if the combination is not expressible
fn body(case: &Case, c: &Ctx) -> Option<Vec<String>> {
    let template = TEMPLATES[case.template as usize % TEMPLATES.len()];
    let effect = EFFECTS[case.effect as usize % EFFECTS.len()];
    let mut lines: Vec<String> = (0..case.prefix % 3).map(|k| format!("w{k} = id_({k}) + {k}")).collect();
    match effect_expr(effect) {
        None => {
            // statement effects: only the position "statement" (with optional nesting in a block)
            match effect {
                "print" => lines.push("print! \"x\"".into()),
                _ => {
                    lines.push("m = ![1]".into());
                    lines.push("m.push! 3".into());
                }
            }
            match template {
                "bind" | "bind-bang-name" | "arg" | "nested-arg" => lines.push("1".into()),
                "block-value" => {
                    // the effect statement inside a block-valued binding
                    let eff = lines.split_off((case.prefix % 3) as usize);
                    lines.push("b =".into());
                    for l in eff {
                        lines.push(format!("    {l}"));
                    }
                    lines.push("    2".into());
                    lines.push("b".into());
                }
                "lambda-body" => {
                    let eff = lines.split_off((case.prefix % 3) as usize);
                    lines.push(format!("{} = (k: Nat) {}", c.lam, c.arrow));
                    for l in eff {
                        lines.push(format!("    {l}"));
                    }
                    lines.push("    k".into());
                    lines.push(format!("{}(1)", c.lam));
                }
                _ => return None,
            }
        }
        Some(e) => {
            let mut e = e.to_string();
            for w in &case.wraps {
                e = wrap(e, WRAPS[*w as usize % WRAPS.len()], c);
            }
            match template {
                "bind" => {
                    lines.push(format!("x = {e}"));
                    lines.push("x + 1".into());
                }
                "bind-bang-name" => {
                    // a local whose name ends in `!` is still a plain binding
                    lines.push(format!("x! = {e}"));
                    lines.push("x! + 1".into());
                }
                "arg" => lines.push(format!("id_({e})")),
                "nested-arg" => lines.push(format!("id_(id_({e}) + 1)")),
                "if-arm" => lines.push(format!("{}(True, {} {e}, {} 0)", c.if_kw, c.do_kw, c.do_kw)),
                "list-elem" => lines.push(format!("[{e}, 1][0]")),
                "record-field" => lines.push(format!("{{.a = {e}}}.a")),
                "tuple-elem" => lines.push(format!("({e}, 2)[0]")),
                "kw-arg" => lines.push(format!("kw_(1, b := {e})")),
                "lambda-body" => {
                    lines.push(format!("{} = (k: Nat) {} {e} + k", c.lam, c.arrow));
                    lines.push(format!("{}(1)", c.lam));
                }
                _ => {
                    lines.push("b =".into());
                    lines.push(format!("    t = {e}"));
                    lines.push("    t + 2".into());
                    lines.push("b".into());
                }
            }
        }
    }
    Some(lines)
}

fn source(case: &Case, c: &Ctx) -> Option<String> {
    let lines = body(case, c)?;
    let mut s = String::from(PRELUDE);
    s.push_str(c.header);
    for l in lines {
        s.push_str(c.indent);
        s.push_str(&l);
        s.push('\n');
    }
    Some(s)
}

impl Property for C22 {
    type Case = Case;
    fn id(&self) -> &'static str {
        "C22"
    }
    fn rule(&self) -> String {
        "one effectful operation (call of a user procedure with/without argument, print!, a procedural method on a local mutable list, a read of a mutable variable defined outside) placed at a generated position (binding, binding to a name ending in `!`, call argument, nested argument, keyword argument, if arm, list / tuple element, record field, lambda body, block-valued binding) under 0-3 pure wrappers (identity call, + 1, parentheses, list index, if expression) after 0-2 pure statements; the same body is written as a function `f() =`, as a procedure `p!() =` and at module top level (with the do / do!, if / if!, -> / => spelling the context requires). Oracle: the function variant must be rejected with >= 1 HasEffect diagnostic; the procedure and top-level variants must be accepted without any error. Non-trivial = effect at depth >= 2 (>= 1 wrapper or a nested position); distinct by case".into()
    }
    fn strategy(&self, _tier: Tier) -> BoxedStrategy<Case> {
        (0u8..TEMPLATES.len() as u8, 0u8..EFFECTS.len() as u8, proptest::collection::vec(0u8..WRAPS.len() as u8, 0..4), 0u8..3)
            .prop_map(|(template, effect, wraps, prefix)| Case { template, effect, wraps, prefix })
            .boxed()
    }
    fn cases(&self, tier: Tier) -> usize {
        tier.pick(1_500, 30_000)
    }
    fn mode(&self) -> Mode {
        Mode::Workers
    }
    fn panic_policy(&self) -> Policy {
        Policy::Discard
    }
    fn abort_policy(&self) -> Policy {
        Policy::Discard
    }
    fn render(&self, case: &Case) -> serde_json::Value {
        json!({"function": source(case, &CTXS[0]), "procedure": source(case, &CTXS[1]), "toplevel": source(case, &CTXS[2])})
    }
    fn run(&self, case: &Case) -> Outcome {
        let template = TEMPLATES[case.template as usize % TEMPLATES.len()];
        let effect = EFFECTS[case.effect as usize % EFFECTS.len()];
        let Some(fsrc) = source(case, &CTXS[0]) else { return Outcome::discard("combination-not-expressible") };
        let mut evals = 0;
        // procedure and top level first: if they are not accepted the template is not a valid witness
        for c in &CTXS[1..] {
            let src = source(case, c).unwrap();
            evals += 1;
            if let Err(d) = ergx::compile(&src, "3.11", 1) {
                let errs: Vec<_> = d.iter().filter(|x| !x.is_warning).collect();
                if errs.iter().any(|x| x.kind == "HasEffect") {
                    return Outcome::fail(
                        format!("effect error in a {} ({effect} at {template})", c.name),
                        json!({"source": src, "diagnostics": errs.iter().map(|e| format!("{}: {}", e.kind, e.msg)).collect::<Vec<_>>()}),
                    );
                }
                return Outcome::fail(
                    format!("the {} variant is rejected: {} ({effect} at {template})", c.name, errs.first().map(|e| e.kind.clone()).unwrap_or_default()),
                    json!({"source": src, "diagnostics": errs.iter().map(|e| format!("{}: {}", e.kind, vkit::util::truncate(&e.msg, 200))).collect::<Vec<_>>()}),
                );
            }
        }
        evals += 1;
        match ergx::compile(&fsrc, "3.11", 1) {
            Ok(_) => Outcome::fail(format!("function with a side effect accepted ({effect} at {template})"), json!({"source": fsrc, "wrappers": case.wraps.iter().map(|w| WRAPS[*w as usize % WRAPS.len()]).collect::<Vec<_>>()})),
            Err(d) => {
                if !d.iter().any(|x| x.kind == "HasEffect") {
                    return Outcome::fail(
                        format!("function variant rejected without an effect diagnostic ({effect} at {template})"),
                        json!({"source": fsrc, "diagnostics": d.iter().filter(|x| !x.is_warning).map(|e| format!("{}: {}", e.kind, vkit::util::truncate(&e.msg, 200))).collect::<Vec<_>>()}),
                    );
                }
                let deep = !case.wraps.is_empty() || matches!(template, "nested-arg" | "lambda-body" | "block-value" | "if-arm");
                let mut o = Outcome::pass(deep).class(format!("position:{template}")).class(format!("effect:{effect}")).class(format!("wrappers:{}", case.wraps.len()));
                o.evals = evals;
                o
            }
        }
    }
}
