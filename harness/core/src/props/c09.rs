//! C09 — the parser is total and never exhausts the stack.
use erg_common::traits::Stream;
use erg_parser::parse::SimpleParser;
use proptest::prelude::*;
use serde::{Deserialize, Serialize};
use serde_json::json;
use vkit::engine::{Mode, Outcome, Policy, Property, Tier};
use vkit::util::idx;

use super::c08::corpus_text;

pub struct C09;

const SOUP: &[&str] = &[
    "x", "y", "f", "Foo", "a!", "print!", "1", "2.5", "\"s\"", "\"a\\{x}b\"", "True", "None", "=", "=", "->", "=>", ":", ":", ",", ",", ".", ".",
    "(", ")", "(", ")", "[", "]", "{", "}", "|", "@", "!", "..", "..<", "+", "-", "*", "/", "**", "==", "<", ">", "<=", "and", "or", "not",
    "in", "do", "do!", "if", "for!", "match", "class", "Class", "Trait", ";", "\n", "\n    ", "\n        ", "\n", "_", "*", "::", "<-", ":=",
    "ref", "ref!", "as", "|>", "...", "$", "?", "~", "&&", "||", "'raw ident'", "\"\"\"m\nl\"\"\"", "#comment\n", "#[ c ]#", "\\\n", "0..10", "x.y",
    "f x", "f(x)", "x[0]", "{x = 1}", "{1: 2}", "[1; 3]", "(x, y)", "x: Int", "-> Int", "|T|", "<:", ":>", ".0", "1.", "e", "E", "isnot!", "is!",
];

/// small core alphabet: every short sequence over it is enumerated, longer ones sampled
const CORE: &[&str] = &["f", "x", "1", ",", "(", ")", "[", "]", "{", "}", ":", "=", "->", ".", "\n", "\n    ", "|", ";", "-", "*", "do", "\"s\""];

#[derive(Serialize, Deserialize, Clone, Debug)]
pub enum Case {
    /// indices into CORE, separated by single spaces
    Core(Vec<u8>),
    Soup(Vec<(u32, bool)>),
    Corpus(u32, u32, u32, u8),
    Text(String),
    /// nesting shape index, depth
    Nest(u8, u32),
}

pub const SHAPES: &[&str] = &[
    "paren", "list", "set", "call", "index", "unary-paren", "tuple", "lambda-chain", "unary-chain", "block", "lambda-paren", "dict", "record", "mixed", "list-then-unary", "call-then-lambda",
];
const BRACKET_SHAPES: usize = 7; // the first seven are pure bracket nesting

pub fn nest_source(shape: u8, d: u32) -> String {
    let d = d as usize;
    match SHAPES[shape as usize % SHAPES.len()] {
        "paren" => format!("x = {}1{}\n", "(".repeat(d), ")".repeat(d)),
        "list" => format!("x = {}1{}\n", "[".repeat(d), "]".repeat(d)),
        "set" => format!("x = {}1{}\n", "{".repeat(d), "}".repeat(d)),
        "call" => format!("x = {}1{}\n", "f(".repeat(d), ")".repeat(d)),
        "index" => format!("x = {}0{}\n", "a[".repeat(d), "]".repeat(d)),
        "unary-paren" => format!("x = {}1{}\n", "-(".repeat(d), ")".repeat(d)),
        "tuple" => format!("x = {}1{}\n", "(".repeat(d), ",)".repeat(d)),
        "lambda-chain" => format!("f = {}1\n", "x -> ".repeat(d)),
        "unary-chain" => format!("x = {}y\n", "- ".repeat(d)),
        "block" => {
            // one-space indentation so that 100 levels stay within the lexer's 100-column rule
            let mut s = String::new();
            for k in 0..d {
                s.push_str(&" ".repeat(k));
                s.push_str("if True, do:\n");
            }
            s.push_str(&" ".repeat(d));
            s.push_str("1\n");
            s
        }
        "list-then-unary" => format!("x = {}{}y{}\n", "[".repeat(d.min(200)), "- ".repeat(d), "]".repeat(d.min(200))),
        "call-then-lambda" => format!("x = {}{}1{}\n", "f(".repeat(d.min(200)), "x -> ".repeat(d), ")".repeat(d.min(200))),
        "lambda-paren" => format!("f = {}1{}\n", "(x -> ".repeat(d), ")".repeat(d)),
        "dict" => format!("x = {}1{}\n", "{1: ".repeat(d), "}".repeat(d)),
        "record" => format!("x = {}1{}\n", "{a = ".repeat(d), "}".repeat(d)),
        _ => {
            let opens = ["(", "[", "f(", "-(", "{"];
            let closes = [")", "]", ")", ")", "}"];
            let mut s = String::from("x = ");
            for k in 0..d {
                s.push_str(opens[k % 5]);
            }
            s.push('1');
            for k in (0..d).rev() {
                s.push_str(closes[k % 5]);
            }
            s.push('\n');
            s
        }
    }
}

fn soup_text(toks: &[(u32, bool)]) -> String {
    let mut s = String::new();
    for (t, sp) in toks {
        s.push_str(SOUP[idx(*t, SOUP.len())]);
        if *sp {
            s.push(' ');
        }
    }
    s.push('\n');
    s
}

fn source(case: &Case) -> String {
    match case {
        Case::Soup(t) => soup_text(t),
        Case::Core(t) => {
            let mut s: String = t.iter().map(|i| CORE[*i as usize % CORE.len()]).collect::<Vec<_>>().join(" ");
            s.push('\n');
            s
        }
        Case::Corpus(a, b, c, d) => corpus_text(*a, *b, *c, *d),
        Case::Text(s) => s.clone(),
        Case::Nest(sh, d) => nest_source(*sh, *d),
    }
}

impl Property for C09 {
    type Case = Case;
    fn id(&self) -> &'static str {
        "C09"
    }
    fn rule(&self) -> String {
        "token soup over an Erg lexeme alphabet (arbitrary order, optional spaces, line breaks with indentation), corpus programs truncated / spliced / cut at random points, arbitrary text, and nesting ladders `open^d atom close^d` for 14 shapes (parens, lists, sets, calls, subscripts, unary+paren, tuples, lambda chains, unary chains, blocks, lambdas in parens, dicts, records, mixed) at depths 1..1000 (blocks <= 100 by the lexer's indentation rule). Oracle: parse + desugar in a worker with the product's 8 MB stack: no panic, no abort, terminates, Ok or Err with >= 1 error; bracket/block ladders of depth <= 200 must parse without error and deeper bracket ladders must be rejected with a diagnostic. Non-trivial = input that lexes (reaches the parser) / ladder of depth >= 50; distinct by case".into()
    }
    fn strategy(&self, _tier: Tier) -> BoxedStrategy<Case> {
        prop_oneof![
            5 => proptest::collection::vec((any::<u32>(), proptest::bool::weighted(0.7)), 1..30).prop_map(Case::Soup),
            4 => proptest::collection::vec(0u8..CORE.len() as u8, 4..14).prop_map(Case::Core),
            4 => (any::<u32>(), any::<u32>(), any::<u32>(), any::<u8>()).prop_map(|(a, b, c, d)| Case::Corpus(a, b, c, d)),
            1 => "[ -~\\n]{0,60}".prop_map(Case::Text),
            1 => (0u8..SHAPES.len() as u8, 1u32..1000).prop_map(|(s, d)| Case::Nest(s, d)),
        ]
        .boxed()
    }
    fn cases(&self, tier: Tier) -> usize {
        tier.pick(30_000, 600_000)
    }
    fn fixed_cases(&self, _tier: Tier) -> Vec<Case> {
        let mut v = vec![];
        // every sequence of up to 3 (quick) / 4 (thorough) core tokens
        let maxlen = _tier.pick(3, 4);
        let mut cur: Vec<Vec<u8>> = vec![vec![]];
        for _ in 0..maxlen {
            let mut next = vec![];
            for p in &cur {
                for k in 0..CORE.len() as u8 {
                    let mut q = p.clone();
                    q.push(k);
                    v.push(Case::Core(q.clone()));
                    next.push(q);
                }
            }
            cur = next;
        }
        for s in 0..SHAPES.len() as u8 {
            for d in [1u32, 2, 5, 10, 20, 50, 100, 150, 199, 200, 201, 250, 300, 500, 1000, 3000] {
                v.push(Case::Nest(s, d));
            }
        }
        v
    }
    fn mode(&self) -> Mode {
        Mode::Workers
    }
    fn hang_policy(&self) -> Policy {
        Policy::Fail
    }
    fn timeout_s(&self) -> f64 {
        60.0
    }
    fn render(&self, case: &Case) -> serde_json::Value {
        match case {
            Case::Nest(s, d) => json!({"kind": "nest", "shape": SHAPES[*s as usize % SHAPES.len()], "depth": d}),
            other => json!({"kind": match other { Case::Soup(_) => "soup", Case::Core(_) => "core-sequence", Case::Corpus(..) => "corpus-mutation", _ => "text" }, "source": vkit::util::truncate(&source(other), 400)}),
        }
    }
    fn run(&self, case: &Case) -> Outcome {
        let src = source(case);
        let lexes = erg_parser::lex::Lexer::from_str(src.clone()).lex().is_ok();
        let res = SimpleParser::parse(src.clone());
        let mut o = match &res {
            Ok(_) => Outcome::pass(lexes).class("parse:ok"),
            Err(iart) => {
                if iart.errors.is_empty() {
                    return Outcome::fail("parse failed without any error", json!({"source": vkit::util::truncate(&src, 400)}));
                }
                Outcome::pass(lexes).class("parse:err")
            }
        };
        if let Case::Nest(sh, d) = case {
            let shape = SHAPES[*sh as usize % SHAPES.len()];
            let bracket = (*sh as usize % SHAPES.len()) < BRACKET_SHAPES || matches!(shape, "lambda-paren" | "dict" | "record" | "mixed");
            let is_block = shape == "block";
            o.nontrivial = *d >= 50;
            o.classes.push(format!("nest:{shape}"));
            if (bracket && *d <= 200) || (is_block && *d <= 100) {
                if let Err(iart) = &res {
                    return Outcome::fail(
                        format!("nesting within the limit rejected: {shape}"),
                        json!({"shape": shape, "depth": d, "errors": vkit::util::truncate(&iart.errors.to_string(), 600)}),
                    );
                }
            }
            if bracket && *d > 200 && res.is_ok() {
                return Outcome::fail(
                    format!("nesting beyond 200 accepted: {shape}"),
                    json!({"shape": shape, "depth": d, "note": "deeper nesting must be reported as an error"}),
                );
            }
        } else {
            o.classes.push(
                match case {
                    Case::Soup(_) => "kind:soup",
                    Case::Corpus(..) => "kind:corpus",
                    _ => "kind:text",
                }
                .to_string(),
            );
        }
        o
    }
}
