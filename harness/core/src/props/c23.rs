//! C23 — a moved mutable value cannot be used again.
use crate::ergx;
use proptest::prelude::*;
use serde::{Deserialize, Serialize};
use serde_json::json;
use std::collections::BTreeSet;
use vkit::engine::{Mode, Outcome, Policy, Property, Tier};
use vkit::util::idx;

pub struct C23;

#[derive(Serialize, Deserialize, Clone, Debug)]
pub enum Op {
    /// a new mutable list / a new mutable natural
    NewList,
    NewNat,
    /// moves: rebinding, list / tuple construction, passing for a mutable-typed parameter
    Rebind(u32),
    IntoList(u32),
    IntoTuple(u32),
    /// `d = {"k": v}`: a dict value is moved like a list element
    IntoDict(u32),
    Take(u32),
    /// a nested procedure whose parameter has the same name as an outer variable and does not
    /// touch it: neither a use nor a move of the outer variable
    ShadowParam(u32),
    /// the same with a local binding of that name
    ShadowLocal(u32),
    /// non-moves: reference parameters, immutable parameter, print!, method call
    Look(u32),
    Peek(u32),
    Imm(u32),
    Print(u32),
    Push(u32),
}

#[derive(Serialize, Deserialize, Clone, Debug)]
pub struct Case {
    pub ops: Vec<Op>,
    /// 0 = module top level, 1 = inside a procedure body
    pub scope: u8,
}

const PRELUDE: &str = "take!(x: List!(Int, _)) =\n    print! x\ntaken!(x: Nat!) =\n    print! x\nlook!(x: RefMut(List!(Int, _))) =\n    x.push! 2\npeek!(x: Ref(List!(Int, _))) =\n    print! x\nimm(x: [Int; _]) = len(x)\n";

#[derive(Clone)]
struct Var {
    name: String,
    is_list: bool,
    moved: bool,
}

struct Built {
    src: String,
    /// 1-origin lines of the uses the model marks as use-after-move
    bad_lines: BTreeSet<u32>,
    /// the subset of `bad_lines` where the moved variable is only a method-call receiver
    recv_lines: BTreeSet<u32>,
    moves: usize,
    later_after_move: bool,
    classes: Vec<String>,
}

fn build(case: &Case) -> Built {
    let mut lines: Vec<String> = vec![];
    let mut vars: Vec<Var> = vec![];
    let mut bad: Vec<usize> = vec![]; // indices into lines
    let mut recv: Vec<usize> = vec![];
    let mut moves = 0;
    let mut later = false;
    let mut classes = BTreeSet::new();
    let mut fresh = 0;
    let mut new_name = |p: &str| {
        fresh += 1;
        format!("{p}{fresh}")
    };
    // always start with one variable of each kind
    let mut ops = vec![Op::NewList, Op::NewNat];
    ops.extend(case.ops.iter().cloned());
    for op in &ops {
        let pick = |sel: u32, vars: &Vec<Var>, list_only: bool| -> Option<usize> {
            let cands: Vec<usize> = vars.iter().enumerate().filter(|(_, v)| !list_only || v.is_list).map(|(i, _)| i).collect();
            if cands.is_empty() { None } else { Some(cands[idx(sel, cands.len())]) }
        };
        let mut use_of = |i: usize, vars: &mut Vec<Var>, lines: &Vec<String>, is_move: bool| {
            if moves > 0 {
                later = true;
            }
            if vars[i].moved {
                bad.push(lines.len());
            }
            if is_move {
                vars[i].moved = true;
                moves += 1;
            }
        };
        match op {
            Op::NewList => {
                let n = new_name("v");
                lines.push(format!("{n} = ![{}]", vars.len()));
                vars.push(Var { name: n, is_list: true, moved: false });
            }
            Op::NewNat => {
                let n = new_name("n");
                lines.push(format!("{n} = !{}", vars.len()));
                vars.push(Var { name: n, is_list: false, moved: false });
            }
            Op::Rebind(s) => {
                if let Some(i) = pick(*s, &vars, false) {
                    classes.insert("move:rebind");
                    use_of(i, &mut vars, &lines, true);
                    let n = new_name("w");
                    lines.push(format!("{n} = {}", vars[i].name));
                    let is_list = vars[i].is_list;
                    vars.push(Var { name: n, is_list, moved: false });
                }
            }
            Op::IntoList(s) => {
                if let Some(i) = pick(*s, &vars, false) {
                    classes.insert("move:list");
                    use_of(i, &mut vars, &lines, true);
                    lines.push(format!("{} = [{}]", new_name("l"), vars[i].name));
                }
            }
            Op::IntoTuple(s) => {
                if let Some(i) = pick(*s, &vars, false) {
                    classes.insert("move:tuple");
                    use_of(i, &mut vars, &lines, true);
                    lines.push(format!("{} = ({}, 1)", new_name("t"), vars[i].name));
                }
            }
            Op::IntoDict(s) => {
                if let Some(i) = pick(*s, &vars, false) {
                    classes.insert("move:dict-value");
                    use_of(i, &mut vars, &lines, true);
                    lines.push(format!("{} = {{\"k\": {}}}", new_name("d"), vars[i].name));
                }
            }
            Op::ShadowParam(s) => {
                if let Some(i) = pick(*s, &vars, false) {
                    classes.insert("shadow:parameter");
                    lines.push(format!("{}!({}: Int) = print! 0", new_name("h"), vars[i].name));
                }
            }
            Op::ShadowLocal(s) => {
                if let Some(i) = pick(*s, &vars, false) {
                    classes.insert("shadow:local");
                    let h = new_name("h");
                    lines.push(format!("{h}!() ="));
                    lines.push(format!("    {} = 1", vars[i].name));
                    lines.push("    print! 0".to_string());
                }
            }
            Op::Take(s) => {
                if let Some(i) = pick(*s, &vars, false) {
                    classes.insert("move:mutable-parameter");
                    use_of(i, &mut vars, &lines, true);
                    let f = if vars[i].is_list { "take!" } else { "taken!" };
                    lines.push(format!("{f} {}", vars[i].name));
                }
            }
            Op::Look(s) => {
                if let Some(i) = pick(*s, &vars, true) {
                    classes.insert("use:refmut-parameter");
                    use_of(i, &mut vars, &lines, false);
                    lines.push(format!("look! {}", vars[i].name));
                }
            }
            Op::Peek(s) => {
                if let Some(i) = pick(*s, &vars, true) {
                    classes.insert("use:ref-parameter");
                    use_of(i, &mut vars, &lines, false);
                    lines.push(format!("peek! {}", vars[i].name));
                }
            }
            Op::Imm(s) => {
                if let Some(i) = pick(*s, &vars, true) {
                    classes.insert("use:immutable-parameter");
                    use_of(i, &mut vars, &lines, false);
                    lines.push(format!("{} = imm {}", new_name("k"), vars[i].name));
                }
            }
            Op::Print(s) => {
                if let Some(i) = pick(*s, &vars, false) {
                    classes.insert("use:print");
                    use_of(i, &mut vars, &lines, false);
                    lines.push(format!("print! {}", vars[i].name));
                }
            }
            Op::Push(s) => {
                if let Some(i) = pick(*s, &vars, true) {
                    classes.insert("use:method");
                    if vars[i].moved {
                        recv.push(lines.len());
                    }
                    use_of(i, &mut vars, &lines, false);
                    lines.push(format!("{}.push! 7", vars[i].name));
                }
            }
        }
    }
    let mut src = String::from(PRELUDE);
    let base = PRELUDE.lines().count();
    let (indent, offset) = if case.scope % 2 == 1 {
        src.push_str("p!() =\n");
        ("    ", base + 1)
    } else {
        ("", base)
    };
    for l in &lines {
        src.push_str(indent);
        src.push_str(l);
        src.push('\n');
    }
    if case.scope % 2 == 1 {
        src.push_str("    print! 0\np!()\n");
    }
    Built {
        src,
        bad_lines: bad.into_iter().map(|i| (offset + i + 1) as u32).collect(),
        recv_lines: recv.into_iter().map(|i| (offset + i + 1) as u32).collect(),
        moves,
        later_after_move: later,
        classes: classes.into_iter().map(|s| s.to_string()).collect(),
    }
}

impl Property for C23 {
    type Case = Case;
    fn id(&self) -> &'static str {
        "C23"
    }
    fn rule(&self) -> String {
        "straight-line scripts of up to 14 operations over mutable variables (`v = ![..]`, `n = !k`) at module top level or inside a procedure body: rebinding `w = v`, list `[v]`, tuple `(v, 1)` and dict `{\"k\": v}` construction, passing for a mutable-typed parameter (moves); passing for RefMut / Ref / immutable parameters, print!, a procedural method call (uses that do not move); nested procedures with a parameter or local of the same name as an outer variable (neither use nor move). Oracle (reference model: a moved set stepped over the script): the checker reports >= 1 MoveError exactly when the model has a use after a move, every MoveError lies on a line the model marks, and no other error kind is reported. Non-trivial = >= 1 move followed by a later statement; distinct by case".into()
    }
    fn strategy(&self, _tier: Tier) -> BoxedStrategy<Case> {
        let op = prop_oneof![
            2 => Just(Op::NewList),
            1 => Just(Op::NewNat),
            3 => any::<u32>().prop_map(Op::Rebind),
            2 => any::<u32>().prop_map(Op::IntoList),
            2 => any::<u32>().prop_map(Op::IntoTuple),
            2 => any::<u32>().prop_map(Op::IntoDict),
            1 => any::<u32>().prop_map(Op::ShadowParam),
            1 => any::<u32>().prop_map(Op::ShadowLocal),
            3 => any::<u32>().prop_map(Op::Take),
            2 => any::<u32>().prop_map(Op::Look),
            2 => any::<u32>().prop_map(Op::Peek),
            2 => any::<u32>().prop_map(Op::Imm),
            3 => any::<u32>().prop_map(Op::Print),
            2 => any::<u32>().prop_map(Op::Push),
        ];
        (proptest::collection::vec(op, 1..14), 0u8..2).prop_map(|(ops, scope)| Case { ops, scope }).boxed()
    }
    fn cases(&self, tier: Tier) -> usize {
        tier.pick(3_000, 60_000)
    }
    fn mode(&self) -> Mode {
        Mode::Workers
    }
    fn panic_policy(&self) -> Policy {
        Policy::Discard
    }
    fn abort_policy(&self) -> Policy {
        Policy::Discard
    }
    fn render(&self, case: &Case) -> serde_json::Value {
        let b = build(case);
        json!({"source": b.src, "use_after_move_lines": b.bad_lines})
    }
    fn run(&self, case: &Case) -> Outcome {
        let b = build(case);
        let scope = if case.scope % 2 == 1 { "procedure" } else { "module" };
        let errs: Vec<crate::ergx::Diag> = match ergx::compile(&b.src, "3.11", 1) {
            Ok(_) => vec![],
            Err(d) => d.into_iter().filter(|x| !x.is_warning).collect(),
        };
        let others: Vec<&crate::ergx::Diag> = errs.iter().filter(|e| e.kind != "MoveError").collect();
        let detail = |extra: serde_json::Value| json!({"source": b.src, "model_use_after_move_lines": b.bad_lines, "more": extra});
        if let Some(o) = others.first() {
            return Outcome::fail(
                format!("a script without ownership problems other than moves is rejected with {} ({scope} scope)", o.kind),
                detail(json!({"message": vkit::util::truncate(&o.msg, 200), "line": o.ln_begin})),
            );
        }
        let move_lines: Vec<u32> = errs.iter().filter_map(|e| e.ln_begin).collect();
        if b.bad_lines.is_empty() && !errs.is_empty() {
            return Outcome::fail(format!("MoveError although no moved variable is used again ({scope} scope)"), detail(json!({"reported_lines": move_lines})));
        }
        if !b.bad_lines.is_empty() && errs.is_empty() && b.bad_lines == b.recv_lines {
            return Outcome::fail("use of a moved variable as the receiver of a method call accepted", detail(json!(null)));
        }
        if !b.bad_lines.is_empty() && errs.is_empty() {
            return Outcome::fail(format!("use of a moved variable accepted ({scope} scope)"), detail(json!(null)));
        }
        if let Some(l) = move_lines.iter().find(|l| !b.bad_lines.contains(l)) {
            return Outcome::fail(format!("MoveError on a line where the model sees no use after a move ({scope} scope)"), detail(json!({"line": l, "reported_lines": move_lines})));
        }
        let mut o = Outcome::pass(b.moves >= 1 && b.later_after_move).classes(b.classes.clone()).class(format!("scope:{scope}"));
        o = o.class(if b.bad_lines.is_empty() { "verdict:accepted" } else { "verdict:move-error" });
        o
    }
}
