//! C04 — compile-time evaluation agrees with run time and never crashes.
use crate::ergx;
use erg_compiler::context::ContextProvider;
use erg_compiler::ty::{TyParam, ValueObj};
use proptest::prelude::*;
use serde::{Deserialize, Serialize};
use serde_json::json;
use vkit::engine::{Mode, Outcome, Policy, Property, Tier};

pub struct C04;

#[derive(Serialize, Deserialize, Clone, Debug)]
pub enum E {
    Nat(u64),
    /// written `(-n)`
    Neg(u64),
    /// decimal text of a non-negative float literal, e.g. "1.5"
    Flt(String),
    NegFlt(String),
    Bool(bool),
    Bin(String, Box<E>, Box<E>),
    Not(Box<E>),
    Minus(Box<E>),
}

#[derive(Serialize, Deserialize, Clone, Debug)]
pub struct Case {
    pub e: E,
}

fn render(e: &E, py: bool) -> String {
    match e {
        E::Nat(n) => n.to_string(),
        E::Neg(n) => format!("(-{n})"),
        E::Flt(s) => s.clone(),
        E::NegFlt(s) => format!("(-{s})"),
        E::Bool(b) => if *b { "True".into() } else { "False".into() },
        E::Bin(op, l, r) => format!("({} {} {})", render(l, py), op, render(r, py)),
        E::Not(x) => format!("(not {})", render(x, py)),
        E::Minus(x) => format!("(-{})", render(x, py)),
    }
}

fn count_ops(e: &E) -> usize {
    match e {
        E::Bin(_, l, r) => 1 + count_ops(l) + count_ops(r),
        E::Not(x) | E::Minus(x) => 1 + count_ops(x),
        _ => 0,
    }
}

fn has_boundary(e: &E) -> bool {
    match e {
        E::Nat(n) | E::Neg(n) => *n >= (1 << 31) - 1,
        E::Bin(_, l, r) => has_boundary(l) || has_boundary(r),
        E::Not(x) | E::Minus(x) => has_boundary(x),
        _ => false,
    }
}

fn ops_of(e: &E, out: &mut Vec<String>) {
    match e {
        E::Bin(op, l, r) => {
            out.push(format!("op:{op}"));
            ops_of(l, out);
            ops_of(r, out);
        }
        E::Not(x) => {
            out.push("op:not".into());
            ops_of(x, out)
        }
        E::Minus(x) => {
            out.push("op:neg".into());
            ops_of(x, out)
        }
        E::Flt(_) | E::NegFlt(_) => out.push("lit:float".into()),
        E::Neg(_) => out.push("lit:negative".into()),
        _ => {}
    }
}

fn nat_lit() -> impl Strategy<Value = u64> {
    prop_oneof![
        6 => 0u64..12,
        2 => 12u64..1000,
        1 => prop::sample::select(vec![(1u64 << 31) - 1, 1 << 31, (1 << 31) + 1, (1 << 32) - 1, 1 << 32, (1u64 << 63) - 1, 1 << 63, u64::MAX, 65535, 65536, 46341, 3037000500]),
    ]
}
fn neg_lit() -> impl Strategy<Value = u64> {
    prop_oneof![
        6 => 1u64..12,
        2 => 12u64..1000,
        1 => prop::sample::select(vec![(1u64 << 31) - 1, 1 << 31, 65536, 46341]),
    ]
}
fn flt_lit() -> impl Strategy<Value = String> {
    prop::sample::select(vec!["0.0", "0.5", "1.0", "1.5", "2.0", "2.5", "3.0", "0.1", "0.25", "10.0", "100.5", "1000000.0", "0.001", "7.75", "123456789.0"]).prop_map(|s| s.to_string())
}

fn num_expr() -> BoxedStrategy<E> {
    let leaf = prop_oneof![
        5 => nat_lit().prop_map(E::Nat),
        3 => neg_lit().prop_map(E::Neg),
        2 => flt_lit().prop_map(E::Flt),
        1 => flt_lit().prop_map(E::NegFlt),
    ];
    leaf.prop_recursive(4, 24, 2, |inner| {
        prop_oneof![
            8 => (prop::sample::select(vec!["+", "-", "*", "/", "//", "%"]), inner.clone(), inner.clone()).prop_map(|(op, l, r)| E::Bin(op.to_string(), Box::new(l), Box::new(r))),
            // `**` with a small natural exponent and an integer base only (see DESIGN C04)
            2 => (prop_oneof![nat_lit().prop_map(E::Nat), neg_lit().prop_map(E::Neg)], 0u64..6).prop_map(|(b, x)| E::Bin("**".into(), Box::new(b), Box::new(E::Nat(x)))),
            1 => inner.clone().prop_map(|x| E::Minus(Box::new(x))),
        ]
    })
    .boxed()
}

fn bool_expr() -> BoxedStrategy<E> {
    let cmp = (prop::sample::select(vec!["==", "!=", "<", "<=", ">", ">="]), num_expr(), num_expr()).prop_map(|(op, l, r)| E::Bin(op.to_string(), Box::new(l), Box::new(r)));
    let leaf = prop_oneof![1 => any::<bool>().prop_map(E::Bool), 3 => cmp];
    leaf.prop_recursive(3, 12, 2, |inner| {
        prop_oneof![
            3 => (prop::sample::select(vec!["and", "or"]), inner.clone(), inner.clone()).prop_map(|(op, l, r)| E::Bin(op.to_string(), Box::new(l), Box::new(r))),
            1 => inner.clone().prop_map(|x| E::Not(Box::new(x))),
        ]
    })
    .boxed()
}

/// canonical text of a value, comparable between erg's ValueObj and Python's repr
fn canon_value(v: &ValueObj) -> Option<String> {
    match v {
        ValueObj::Int(i) => Some(i.to_string()),
        ValueObj::Nat(n) => Some(n.to_string()),
        ValueObj::Bool(b) => Some(if *b { "True".into() } else { "False".into() }),
        ValueObj::Float(f) => Some(canon_float(**f)),
        ValueObj::Inf => Some("float:inf".into()),
        ValueObj::NegInf => Some("float:-inf".into()),
        _ => None,
    }
}
fn canon_float(f: f64) -> String {
    if f.is_nan() {
        "float:nan".into()
    } else {
        format!("float:{:016x}", f.to_bits())
    }
}
/// canonical text of what Python printed (`print(N)`)
fn canon_printed(s: &str) -> String {
    let t = s.trim();
    if t == "True" || t == "False" {
        return t.to_string();
    }
    if t.chars().all(|c| c.is_ascii_digit() || c == '-') && !t.is_empty() {
        return t.to_string();
    }
    match t {
        "inf" => return "float:inf".into(),
        "-inf" => return "float:-inf".into(),
        "nan" => return "float:nan".into(),
        _ => {}
    }
    match t.parse::<f64>() {
        Ok(f) => canon_float(f),
        Err(_) => format!("text:{t}"),
    }
}

impl Property for C04 {
    type Case = Case;
    fn id(&self) -> &'static str {
        "C04"
    }
    fn rule(&self) -> String {
        "constant expression trees (depth<=4) over Nat/Int/Float/Bool literals (negatives, zero divisors, values around 2**31, 2**32, 2**63, 2**64-1, float/int mixes) with + - * / // % ** (integer base, exponent 0-5), comparisons, and/or/not, unary minus; module `N = e; print! N`. Oracle: the compiler must not panic/abort; when the checker assigns N a singleton type {v}, v must equal what the compiled program prints for N and what Python computes for the same expression (bit-exact for floats); a compile-time value for an expression Python cannot evaluate (ZeroDivisionError) is a violation; no singleton type or an ordinary diagnostic = left to run time / reported = pass. Non-trivial = compile-time value present and (>=2 operators or a boundary operand); distinct by expression text".into()
    }
    fn strategy(&self, _tier: Tier) -> BoxedStrategy<Case> {
        prop_oneof![3 => num_expr(), 1 => bool_expr()].prop_map(|e| Case { e }).boxed()
    }
    fn cases(&self, tier: Tier) -> usize {
        tier.pick(4_000, 150_000)
    }
    fn mode(&self) -> Mode {
        Mode::Workers
    }
    fn abort_policy(&self) -> Policy {
        Policy::Fail
    }
    fn setup(&self) {
        ergx::warm_python("3.11");
    }
    fn render(&self, case: &Case) -> serde_json::Value {
        json!(render(&case.e, false))
    }
    fn run(&self, case: &Case) -> Outcome {
        let text = render(&case.e, false);
        let src = format!("N = {text}\nprint! N\n");
        let py_src = format!("N = {}\nprint(N)\n", render(&case.e, true));
        let mut classes = vec![];
        ops_of(&case.e, &mut classes);
        classes.sort();
        classes.dedup();
        // reference value
        let pr = ergx::run_py(&py_src, "3.11", 20.0);
        if pr.timeout || pr.died {
            return Outcome::inconclusive("python-reference-timeout");
        }
        let p_val = if pr.exc.is_some() { format!("raises:{}", pr.exc.clone().unwrap()) } else { canon_printed(&pr.stdout_str()) };
        // a panic in here is reported by the engine (signature = panic location + message)
        let compiled = match ergx::compile(&src, "3.11", 1) {
            Ok(c) => c,
            Err(diags) => {
                if let Some(d) = diags.iter().find(|d| ergx::is_internal_error(d)) {
                    return Outcome::fail(format!("internal compiler error: {}", vkit::panics::norm_msg(&d.msg)), json!({"expr": text}));
                }
                return Outcome::pass(false).classes(classes).class("rejected-with-diagnostic").class(format!("python:{}", if pr.exc.is_some() { "raises" } else { "value" }));
            }
        };
        let t_val: Option<String> = compiled
            .compiler
            .get_var_info("N")
            .and_then(|(_, vi)| vi.t.singleton_value().cloned())
            .and_then(|tp| match tp {
                TyParam::Value(v) => canon_value(&v),
                _ => None,
            });
        let rr = ergx::run_pyc(&compiled.pyc, "3.11", 20.0);
        if rr.timeout || rr.died {
            return Outcome::inconclusive("compiled-program-timeout");
        }
        let r_val = if rr.exc.is_some() { format!("raises:{}", rr.exc.clone().unwrap()) } else { canon_printed(&rr.stdout_str()) };
        let Some(t) = t_val else {
            let c = if r_val == p_val { "no-compile-time-value" } else { "no-compile-time-value;runtime-differs-from-python(C01)" };
            return Outcome::pass(false).classes(classes).class(c);
        };
        let detail = json!({"expr": text, "compile_time": t, "compiled_program": r_val, "python": p_val, "printed": rr.stdout_str().trim(), "python_printed": pr.stdout_str().trim()});
        let top = match &case.e {
            E::Bin(op, ..) => op.clone(),
            E::Not(_) => "not".into(),
            E::Minus(_) => "neg".into(),
            _ => "lit".into(),
        };
        if t != p_val {
            let kind = if p_val.starts_with("raises:") { format!("compile-time value for an expression that raises {}", &p_val[7..]) } else { "compile-time value differs from Python's value".to_string() };
            return Outcome::fail(format!("{kind} (top operator {top})"), detail);
        }
        if t != r_val {
            if rr.exc.is_some() {
                // the evaluator agrees with Python; the compiled program fails for another reason
                return Outcome::fail(
                    format!("compile-time value equals Python's but the compiled program raises {}: {}", rr.exc.clone().unwrap(), vkit::panics::norm_msg(&rr.msg)),
                    detail,
                );
            }
            return Outcome::fail(format!("compile-time value differs from what the compiled program prints (top operator {top})"), detail);
        }
        let nt = count_ops(&case.e) >= 2 || has_boundary(&case.e);
        Outcome::pass(nt).classes(classes).class("compile-time-value")
    }
}
