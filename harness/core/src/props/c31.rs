//! C31 — module path normalisation identifies only identical files.
use erg_common::pathutil::NormalizedPathBuf;
use proptest::prelude::*;
use serde::{Deserialize, Serialize};
use serde_json::json;
use std::collections::BTreeMap;
use std::path::PathBuf;
use vkit::engine::{Outcome, Property, Tier};
use vkit::util::hash_str;

pub struct C31;

const COMPS: &[&str] = &[".", "..", "a", "b", "c", "a.er"];

#[derive(Serialize, Deserialize, Clone, Debug)]
pub struct PathSpec {
    pub absolute: bool,
    pub comps: Vec<u8>,
    /// per separator: number of extra '/' (duplicate separators)
    pub dups: Vec<u8>,
    pub trailing: bool,
}

#[derive(Serialize, Deserialize, Clone, Debug)]
pub enum Case {
    Pair(PathSpec, PathSpec),
    /// all paths with at most `len` components (relative and absolute), grouped by normal form
    Exhaust(u8),
}

impl PathSpec {
    pub fn render(&self) -> String {
        let mut s = String::new();
        if self.absolute {
            s.push('/');
        }
        for (i, c) in self.comps.iter().enumerate() {
            if i > 0 {
                s.push('/');
                for _ in 0..self.dups.get(i).cloned().unwrap_or(0) % 3 {
                    s.push('/');
                }
            }
            s.push_str(COMPS[*c as usize % COMPS.len()]);
        }
        if self.trailing && !self.comps.is_empty() {
            s.push('/');
        }
        s
    }
    fn names(&self) -> Vec<&'static str> {
        self.comps.iter().map(|c| COMPS[*c as usize % COMPS.len()]).collect()
    }
}

/// Reference: lexical resolution. Returns (absolute, leading parent count, remaining names).
pub fn reference(absolute: bool, names: &[&str]) -> (bool, usize, Vec<String>) {
    let mut ups = 0usize;
    let mut stack: Vec<String> = vec![];
    for n in names {
        match *n {
            "." | "" => {}
            ".." => {
                if stack.pop().is_none() && !absolute {
                    ups += 1; // nothing to pop on a relative path: the parent component is kept
                }
            }
            x => stack.push(x.to_string()),
        }
    }
    (absolute, ups, stack)
}

fn norm(s: &str) -> NormalizedPathBuf {
    NormalizedPathBuf::new(PathBuf::from(s))
}

fn check_one(spec: &PathSpec) -> Result<(), (String, serde_json::Value)> {
    let s = spec.render();
    let n = norm(&s);
    // idempotence
    let n2 = NormalizedPathBuf::new(n.to_path_buf());
    if n != n2 {
        return Err((
            "not idempotent".into(),
            json!({"path": s, "once": n.to_string_lossy(), "twice": n2.to_string_lossy()}),
        ));
    }
    // leading parent components preserved
    let (_abs, ups, _rest) = reference(spec.absolute, &spec.names());
    let got_ups = n
        .to_path_buf()
        .components()
        .take_while(|c| matches!(c, std::path::Component::ParentDir))
        .count();
    if got_ups != ups {
        return Err((
            "leading parent-directory components discarded".into(),
            json!({"path": s, "normalized": n.to_string_lossy(), "expected_leading_parents": ups, "got": got_ups}),
        ));
    }
    Ok(())
}

fn has_parent(spec: &PathSpec) -> bool {
    spec.names().iter().any(|n| *n == "..")
}

impl Property for C31 {
    type Case = Case;
    fn id(&self) -> &'static str {
        "C31"
    }
    fn rule(&self) -> String {
        "paths of <= 8 components from {., .., a, b, c, a.er}, relative/absolute, duplicate separators, trailing '/'; random pairs (second path is often a lexically-equivalent or near-equivalent rewrite of the first) plus exhaustive enumeration of all paths up to a length (quick 5, thorough 7) grouped by normal form; oracle = lexical reference resolution keeping leading '..'. Non-trivial = path (pair) containing '..'; distinct by rendered path(s)".into()
    }
    fn strategy(&self, _tier: Tier) -> BoxedStrategy<Case> {
        let spec = (
            any::<bool>(),
            proptest::collection::vec(0u8..6, 0..=8),
            proptest::collection::vec(0u8..3, 8),
            any::<bool>(),
        )
            .prop_map(|(absolute, comps, dups, trailing)| PathSpec { absolute, comps, dups, trailing });
        // second path: independent, or a rewrite of the first
        (spec.clone(), spec, 0u8..6, any::<u8>())
            .prop_map(|(p, q, how, pos)| {
                let mut r = p.clone();
                let at = if r.comps.is_empty() { 0 } else { pos as usize % (r.comps.len() + 1) };
                match how {
                    0 => return Case::Pair(p, q),
                    1 => r.comps.insert(at, 0),                       // insert "."
                    2 => {
                        r.comps.insert(at, 1);                        // insert "x/.."
                        r.comps.insert(at, 2);
                    }
                    3 => r.comps.insert(0, 1),                        // prefix ".."
                    4 => r.trailing = !r.trailing,
                    _ => {
                        if !r.comps.is_empty() {
                            let l = r.comps.len();
                            r.comps.remove(pos as usize % l);
                        }
                    }
                }
                r.comps.truncate(8);
                Case::Pair(p, r)
            })
            .boxed()
    }
    fn cases(&self, tier: Tier) -> usize {
        tier.pick(100_000, 3_000_000)
    }
    fn fixed_cases(&self, tier: Tier) -> Vec<Case> {
        vec![Case::Exhaust(tier.pick(5, 7) as u8)]
    }
    fn exhaustive(&self, _tier: Tier) -> bool {
        false
    }
    fn run(&self, case: &Case) -> Outcome {
        match case {
            Case::Pair(p, q) => {
                for s in [p, q] {
                    if let Err((sig, d)) = check_one(s) {
                        return Outcome::fail(sig, d);
                    }
                }
                let (sp, sq) = (p.render(), q.render());
                let same = norm(&sp) == norm(&sq);
                let rp = reference(p.absolute, &p.names());
                let rq = reference(q.absolute, &q.names());
                if same && rp != rq {
                    return Outcome::fail(
                        "different files identified",
                        json!({"p": sp, "q": sq, "normalized": norm(&sp).to_string_lossy(), "ref_p": format!("{rp:?}"), "ref_q": format!("{rq:?}")}),
                    );
                }
                let mut o = Outcome::pass(has_parent(p) || has_parent(q));
                if same {
                    o.classes.push("pair:identified".into());
                }
                if rp == rq {
                    o.classes.push("pair:same-file".into());
                }
                o
            }
            Case::Exhaust(len) => {
                let len = *len as usize;
                let mut groups: BTreeMap<String, (String, (bool, usize, Vec<String>))> = BTreeMap::new();
                let maxlen = len;
                let mut evals = 0u64;
                let mut sub = vec![];
                for len in 0..=maxlen {
                let total = COMPS.len().pow(len as u32);
                for absolute in [false, true] {
                    for code in 0..total {
                        let mut c = code;
                        let comps: Vec<u8> = (0..len)
                            .map(|_| {
                                let d = (c % COMPS.len()) as u8;
                                c /= COMPS.len();
                                d
                            })
                            .collect();
                        let spec = PathSpec { absolute, comps, dups: vec![], trailing: false };
                        evals += 1;
                        if let Err((sig, d)) = check_one(&spec) {
                            return Outcome::fail(sig, d);
                        }
                        let s = spec.render();
                        let key = norm(&s).to_string_lossy().to_string();
                        let r = reference(absolute, &spec.names());
                        if has_parent(&spec) {
                            sub.push(hash_str(&s));
                        }
                        if let Some((other, ro)) = groups.get(&key) {
                            if *ro != r {
                                return Outcome::fail(
                                    "different files identified",
                                    json!({"p": other, "q": s, "normalized": key, "ref_p": format!("{ro:?}"), "ref_q": format!("{r:?}")}),
                                );
                            }
                        } else {
                            groups.insert(key, (s, r));
                        }
                    }
                }
                }
                let mut o = Outcome::pass(true);
                o.evals = evals;
                o.sub_nontrivial = sub;
                o.classes.push(format!("exhaustive-len-{len}"));
                o
            }
        }
    }
}
