//! C28 — the language server's document copy matches the client's.
use els_crate as els;
use erg_common::config::ErgConfig;
use erg_common::vfs::VFS;
use proptest::prelude::*;
use serde::{Deserialize, Serialize};
use serde_json::{json, Value};
use std::cell::RefCell;
use std::sync::mpsc;
use vkit::engine::{Mode, Outcome, Policy, Property, Tier};

pub struct C28;

#[derive(Serialize, Deserialize, Clone, Debug)]
pub enum Change {
    /// start (line selector, utf-16 column selector incl. past end of line), extent, new text
    Ranged { line: u32, col: u32, extent: u32, text: String },
    Full { text: String },
}

#[derive(Serialize, Deserialize, Clone, Debug)]
pub struct Case {
    pub open: String,
    /// notifications; each carries 0-3 changes
    pub edits: Vec<Vec<Change>>,
}

thread_local! {
    static SERVER: RefCell<Option<(els::Server, mpsc::Receiver<Value>, u64)>> = const { RefCell::new(None) };
}

fn with_server<T>(f: impl FnOnce(&mut els::Server, &mpsc::Receiver<Value>, u64) -> T) -> T {
    SERVER.with(|s| {
        let mut s = s.borrow_mut();
        if s.is_none() {
            let (tx, rx) = mpsc::channel();
            let mut server = els::Server::new(ErgConfig::default(), Some(tx));
            let _ = server.dispatch(json!({"jsonrpc": "2.0", "id": 1, "method": "initialize", "params": {"processId": null, "rootUri": null, "capabilities": {}}}));
            let _ = server.dispatch(json!({"jsonrpc": "2.0", "method": "initialized", "params": {}}));
            // a client that saves after a delay: ends the background auto-diagnostics loop
            let _ = server.dispatch(json!({"jsonrpc": "2.0", "id": 10001, "result": ["afterDelay"]}));
            *s = Some((server, rx, 0));
        }
        let (server, rx, n) = s.as_mut().unwrap();
        *n += 1;
        while rx.try_recv().is_ok() {}
        f(server, rx, *n)
    })
}

/// the client's reading of an LSP position in its own copy (UTF-16 columns, past-EOL = EOL)
fn offset_of(doc: &str, line: u32, character: u32) -> usize {
    let mut l = 0u32;
    let mut col = 0u32;
    for (i, c) in doc.char_indices() {
        if l == line && col >= character {
            return i;
        }
        if c == '\n' {
            if l == line {
                return i;
            }
            l += 1;
            col = 0;
        } else {
            col += c.len_utf16() as u32;
        }
    }
    doc.len()
}

fn line_count(doc: &str) -> u32 {
    doc.matches('\n').count() as u32 + 1
}

fn line_len16(doc: &str, line: u32) -> u32 {
    doc.split('\n').nth(line as usize).map(|l| l.encode_utf16().count() as u32).unwrap_or(0)
}

fn pos_of(doc: &str, byte: usize) -> (u32, u32) {
    let before = &doc[..byte];
    let line = before.matches('\n').count() as u32;
    let last = before.rsplit('\n').next().unwrap_or("");
    (line, last.encode_utf16().count() as u32)
}

fn text_strategy(max: usize) -> BoxedStrategy<String> {
    let piece = prop_oneof![
        6 => "[a-z =+()0-9]{0,6}",
        2 => Just("\n".to_string()),
        2 => proptest::sample::select(vec!["é", "日本語", "ß", "→"]).prop_map(|s| s.to_string()),
        2 => proptest::sample::select(vec!["😀", "𝒳", "🧪x"]).prop_map(|s| s.to_string()),
        1 => Just("x = 1\n".to_string()),
        1 => Just(".".to_string()),
    ];
    proptest::collection::vec(piece, 0..max).prop_map(|v| v.concat()).boxed()
}

impl Property for C28 {
    type Case = Case;
    fn id(&self) -> &'static str {
        "C28"
    }
    fn rule(&self) -> String {
        "stateful: per document a didOpen with generated text (ASCII, BMP multi-byte and astral characters, \\n line ends) followed by up to 12 didChange notifications with 0-3 content changes each (insert / delete / replace addressed by UTF-16 positions incl. positions past the end of a line and at the end of the text, full-text changes without a range, empty change lists; versions increasing); a client-side model applies the same changes per the LSP specification (changes of one notification in order, past-EOL = EOL). Oracle after every notification: the server's copy (VFS.read of the document path) equals the model, and dispatch neither panics nor errs. Non-trivial = history with an edit after a multi-byte or astral character on its line, an edit at EOF, or a past-EOL position; distinct by case".into()
    }
    fn strategy(&self, _tier: Tier) -> BoxedStrategy<Case> {
        let change = prop_oneof![
            8 => (any::<u32>(), any::<u32>(), any::<u32>(), text_strategy(3)).prop_map(|(line, col, extent, text)| Change::Ranged { line, col, extent, text }),
            1 => text_strategy(5).prop_map(|text| Change::Full { text }),
        ];
        (text_strategy(8), proptest::collection::vec(proptest::collection::vec(change, 0..4), 1..13)).prop_map(|(open, edits)| Case { open, edits }).boxed()
    }
    fn cases(&self, tier: Tier) -> usize {
        tier.pick(20_000, 400_000)
    }
    fn mode(&self) -> Mode {
        Mode::Workers
    }
    fn panic_policy(&self) -> Policy {
        Policy::Fail
    }
    fn abort_policy(&self) -> Policy {
        Policy::Fail
    }
    fn run(&self, case: &Case) -> Outcome {
        with_server(|server, rx, n| {
            let path = format!("/verif-nonexistent/c28_{}_{n}.er", std::process::id());
            let uri = format!("file://{path}");
            let mut model = case.open.clone();
            let mut nontrivial = false;
            let mut classes = vec![];
            let open = json!({"jsonrpc": "2.0", "method": "textDocument/didOpen", "params": {"textDocument": {"uri": uri, "languageId": "erg", "version": 1, "text": model}}});
            if let Err(e) = server.dispatch(open) {
                return Outcome::fail("didOpen is answered with an error", json!({"error": format!("{e:?}")}));
            }
            for (k, changes) in case.edits.iter().enumerate() {
                let mut wire = vec![];
                for ch in changes {
                    match ch {
                        Change::Full { text } => {
                            wire.push(json!({"text": text}));
                            model = text.clone();
                            classes.push("change:full-text".to_string());
                        }
                        Change::Ranged { line, col, extent, text } => {
                            let lines = line_count(&model);
                            let l = vkit::util::idx(*line, lines as usize) as u32;
                            let len = line_len16(&model, l);
                            // columns 0..=len+2: the last two address past the end of the line
                            let c = vkit::util::idx(*col, len as usize + 3) as u32;
                            let start = offset_of(&model, l, c);
                            // the end: up to 12 UTF-16 units further (may cross lines), on a character boundary
                            let rest: Vec<usize> = model[start..].char_indices().map(|(i, _)| start + i).chain(std::iter::once(model.len())).take(13).collect();
                            let end = rest[vkit::util::idx(*extent, rest.len())];
                            let (el, ec) = pos_of(&model, end);
                            // the start position is sent as generated (possibly past EOL), the end exactly
                            wire.push(json!({"range": {"start": {"line": l, "character": c}, "end": {"line": el, "character": ec}}, "text": text}));
                            let line_text = model.split('\n').nth(l as usize).unwrap_or("");
                            let before_on_line: String = line_text.chars().take_while({
                                let mut n16 = 0u32;
                                move |ch| {
                                    let ok = n16 < c;
                                    n16 += ch.len_utf16() as u32;
                                    ok
                                }
                            }).collect();
                            if c > len {
                                nontrivial = true;
                                classes.push("edit:past-end-of-line".to_string());
                            }
                            if !before_on_line.is_ascii() {
                                nontrivial = true;
                                classes.push(if before_on_line.chars().any(|ch| ch.len_utf16() == 2) { "edit:after-astral".to_string() } else { "edit:after-multibyte".to_string() });
                            }
                            if start == model.len() {
                                nontrivial = true;
                                classes.push("edit:at-eof".to_string());
                            }
                            model.replace_range(start..end, text);
                        }
                    }
                }
                if changes.is_empty() {
                    classes.push("change:empty-list".to_string());
                }
                let msg = json!({"jsonrpc": "2.0", "method": "textDocument/didChange", "params": {"textDocument": {"uri": uri, "version": k as i64 + 2}, "contentChanges": wire}});
                if let Err(e) = server.dispatch(msg.clone()) {
                    return Outcome::fail("didChange is answered with an error", json!({"notification": k, "error": format!("{e:?}"), "message": msg}));
                }
                let got = VFS.read(&path).unwrap_or_else(|e| format!("<unreadable: {e}>"));
                if got != model {
                    let kind = classes.last().cloned().unwrap_or_default();
                    return Outcome::fail(
                        format!("the server's copy differs from the client's after a didChange ({kind})"),
                        json!({"notification": k, "message": msg, "client": vkit::util::truncate(&model, 400), "server": vkit::util::truncate(&got, 400)}),
                    );
                }
            }
            while rx.try_recv().is_ok() {}
            classes.sort();
            classes.dedup();
            Outcome::pass(nontrivial).classes(classes)
        })
    }
}
