//! C34 — inferred types describe the values bindings hold at run time.
use crate::ergx;
use erg_compiler::hir::Expr as HExpr;
use erg_compiler::HIRBuilder;
use erg_common::traits::Runnable;
use erg_compiler::ty::{Predicate, TyParam, Type, ValueObj};
use proptest::prelude::*;
use serde::{Deserialize, Serialize};
use serde_json::json;
use vkit::engine::{Mode, Outcome, Policy, Property, Tier};
use vkit::util::idx;

pub struct C34;

#[derive(Serialize, Deserialize, Clone, Debug)]
pub enum E {
    IntLit(i8),
    /// op index (+ - * // %), left selector, right selector / literal
    Arith(u8, u32, u32, i8),
    CallInc(u32),
    CallDouble(u32),
    Len(u32),
    Index(u32, u8),
    ListLit(Vec<i8>),
    Push(u32, i8),
    Concat(u32, u32),
    StrLit(u8),
    StrCat(u32, u32),
    BoolLit(bool),
    Cmp(u32, u32),
    FloatLit(i8),
    FloatAdd(u32, u32),
}

#[derive(Serialize, Deserialize, Clone, Debug)]
pub struct Case {
    pub binds: Vec<E>,
}

#[derive(Clone, Copy, PartialEq, Debug)]
enum K {
    Int,
    List,
    Str,
    Bool,
    Float,
}

#[derive(Clone, Debug, PartialEq)]
enum V {
    I(i64),
    L(Vec<i64>),
    S(String),
    B(bool),
    F(f64),
}

struct Built {
    src: String,
    /// (name, kind, feature) per binding that was emitted
    binds: Vec<(String, K, &'static str)>,
}

fn lit(i: i8) -> String {
    if i < 0 { format!("({i})") } else { i.to_string() }
}

fn build(case: &Case) -> Built {
    let mut src = String::from("inc x = x + 1\ndouble(x: Nat) = x * 2\n");
    let mut binds: Vec<(String, K, &'static str)> = vec![];
    let pick = |sel: u32, k: K, binds: &Vec<(String, K, &'static str)>| -> Option<String> {
        let c: Vec<&String> = binds.iter().filter(|b| b.1 == k).map(|b| &b.0).collect();
        if c.is_empty() { None } else { Some(c[idx(sel, c.len())].clone()) }
    };
    for (n, e) in case.binds.iter().enumerate() {
        let name = format!("b{n}");
        let made: Option<(String, K, &'static str)> = match e {
            E::IntLit(i) => Some((lit(*i), K::Int, "literal")),
            E::Arith(op, a, b, l) => {
                let lhs = pick(*a, K::Int, &binds).unwrap_or_else(|| lit(*l));
                let o = ["+", "-", "*", "//", "%"][*op as usize % 5];
                let rhs = if *op % 5 >= 3 {
                    // literal non-zero divisor
                    lit(if *l == 0 { 3 } else { *l })
                } else if b % 2 == 0 {
                    pick(*b, K::Int, &binds).unwrap_or_else(|| lit(*l))
                } else {
                    lit(*l)
                };
                Some((format!("{lhs} {o} {rhs}"), K::Int, "arithmetic"))
            }
            E::CallInc(a) => pick(*a, K::Int, &binds).map(|x| (format!("inc {x}"), K::Int, "user-function")),
            E::CallDouble(a) => Some((format!("double {}", (*a % 7)), K::Int, "user-function")),
            E::Len(a) => pick(*a, K::List, &binds).map(|x| (format!("len {x}"), K::Int, "len")),
            E::Index(a, i) => pick(*a, K::List, &binds).map(|x| (format!("{x}[{}]", i % 10), K::Int, "index")),
            E::ListLit(v) => Some((format!("[{}]", v.iter().map(|i| lit(*i)).collect::<Vec<_>>().join(", ")), K::List, "list-literal")),
            E::Push(a, v) => pick(*a, K::List, &binds).map(|x| (format!("{x}.push({})", lit(*v)), K::List, "push")),
            E::Concat(a, b) => match (pick(*a, K::List, &binds), pick(*b, K::List, &binds)) {
                (Some(x), Some(y)) => Some((format!("{x} + {y}"), K::List, "concatenation")),
                _ => None,
            },
            E::StrLit(i) => Some((format!("\"{}\"", ["", "a", "bc", "x y"][*i as usize % 4]), K::Str, "literal")),
            E::StrCat(a, b) => match (pick(*a, K::Str, &binds), pick(*b, K::Str, &binds)) {
                (Some(x), Some(y)) => Some((format!("{x} + {y}"), K::Str, "concatenation")),
                _ => None,
            },
            E::BoolLit(b) => Some(((if *b { "True" } else { "False" }).to_string(), K::Bool, "literal")),
            E::Cmp(a, b) => match (pick(*a, K::Int, &binds), pick(*b, K::Int, &binds)) {
                (Some(x), Some(y)) => Some((format!("{x} <= {y}"), K::Bool, "comparison")),
                _ => None,
            },
            E::FloatLit(i) => Some((format!("{}.5", i.unsigned_abs()), K::Float, "literal")),
            E::FloatAdd(a, b) => match (pick(*a, K::Float, &binds), pick(*b, K::Int, &binds)) {
                (Some(x), Some(y)) => Some((format!("{x} + {y}"), K::Float, "arithmetic")),
                _ => None,
            },
        };
        if let Some((text, k, feat)) = made {
            src.push_str(&format!("{name} = {text}\n"));
            binds.push((name, k, feat));
        }
    }
    for (name, _, _) in &binds {
        src.push_str(&format!("print! \"@@{name}\", {name}\n"));
    }
    Built { src, binds }
}

fn parse_value(k: K, text: &str) -> Option<V> {
    match k {
        K::Int => text.parse().ok().map(V::I),
        K::Bool => match text {
            "True" => Some(V::B(true)),
            "False" => Some(V::B(false)),
            _ => None,
        },
        K::Float => text.parse().ok().map(V::F),
        K::Str => Some(V::S(text.to_string())),
        K::List => {
            let inner = text.strip_prefix('[')?.strip_suffix(']')?;
            if inner.trim().is_empty() {
                return Some(V::L(vec![]));
            }
            inner.split(',').map(|x| x.trim().parse().ok()).collect::<Option<Vec<i64>>>().map(V::L)
        }
    }
}

fn tp_num(tp: &TyParam) -> Option<f64> {
    match tp {
        TyParam::Value(ValueObj::Int(i)) => Some(*i as f64),
        TyParam::Value(ValueObj::Nat(n)) => Some(*n as f64),
        TyParam::Value(ValueObj::Float(f)) => Some(**f),
        TyParam::Value(ValueObj::Bool(b)) => Some(*b as u8 as f64),
        _ => None,
    }
}

fn v_num(v: &V) -> Option<f64> {
    match v {
        V::I(i) => Some(*i as f64),
        V::F(f) => Some(*f),
        V::B(b) => Some(*b as u8 as f64),
        _ => None,
    }
}

/// Some(true/false) when the predicate can be decided for the value, None when its shape is not modelled
fn pred_holds(p: &Predicate, v: &V) -> Option<bool> {
    match p {
        Predicate::Value(ValueObj::Bool(b)) => Some(*b),
        Predicate::Equal { rhs, .. } => match (rhs, v) {
            (TyParam::Value(ValueObj::Str(s)), V::S(t)) => Some(&s[..] == t),
            (TyParam::Value(ValueObj::Str(_)), _) => Some(false),
            _ => Some(tp_num(rhs)? == v_num(v)?),
        },
        Predicate::NotEqual { rhs, .. } => match (rhs, v) {
            (TyParam::Value(ValueObj::Str(s)), V::S(t)) => Some(&s[..] != t),
            _ => Some(tp_num(rhs)? != v_num(v)?),
        },
        Predicate::GreaterEqual { rhs, .. } => Some(v_num(v)? >= tp_num(rhs)?),
        Predicate::LessEqual { rhs, .. } => Some(v_num(v)? <= tp_num(rhs)?),
        Predicate::And(a, b) => match (pred_holds(a, v), pred_holds(b, v)) {
            (Some(false), _) | (_, Some(false)) => Some(false),
            (Some(true), Some(true)) => Some(true),
            _ => None,
        },
        Predicate::Or(ps) => {
            let rs: Vec<Option<bool>> = ps.iter().map(|q| pred_holds(q, v)).collect();
            if rs.iter().any(|r| *r == Some(true)) {
                Some(true)
            } else if rs.iter().all(|r| *r == Some(false)) {
                Some(false)
            } else {
                None
            }
        }
        Predicate::Not(q) => pred_holds(q, v).map(|b| !b),
        _ => None,
    }
}

/// membership of a run-time value in an inferred type; None = type shape not modelled
fn member(t: &Type, v: &V) -> Option<bool> {
    match t {
        Type::FreeVar(fv) if fv.is_linked() => member(&fv.crack(), v),
        Type::Obj => Some(true),
        Type::Never => Some(false),
        Type::Int => Some(matches!(v, V::I(_) | V::B(_))),
        Type::Nat => Some(match v {
            V::I(i) => *i >= 0,
            V::B(_) => true,
            _ => false,
        }),
        Type::Bool => Some(matches!(v, V::B(_))),
        Type::Str => Some(matches!(v, V::S(_))),
        Type::Float | Type::Ratio => Some(matches!(v, V::F(_) | V::I(_) | V::B(_))),
        Type::Refinement(r) => match member(&r.t, v)? {
            false => Some(false),
            true => pred_holds(&r.pred, v),
        },
        Type::Or(ts) => {
            let rs: Vec<Option<bool>> = ts.iter().map(|u| member(u, v)).collect();
            if rs.iter().any(|r| *r == Some(true)) {
                Some(true)
            } else if rs.iter().all(|r| *r == Some(false)) {
                Some(false)
            } else {
                None
            }
        }
        Type::Poly { name, params } if &name[..] == "List" && params.len() == 2 => {
            let V::L(items) = v else { return Some(false) };
            let len_ok = match &params[1] {
                TyParam::Value(ValueObj::Nat(n)) => Some(*n as usize == items.len()),
                TyParam::Value(ValueObj::Int(n)) => Some(*n as usize == items.len()),
                TyParam::Erased(_) => Some(true),
                _ => None,
            };
            let elem_ok = match &params[0] {
                TyParam::Type(et) => {
                    let rs: Vec<Option<bool>> = items.iter().map(|i| member(et, &V::I(*i))).collect();
                    if rs.iter().any(|r| *r == Some(false)) {
                        Some(false)
                    } else if rs.iter().all(|r| *r == Some(true)) {
                        Some(true)
                    } else {
                        None
                    }
                }
                _ => None,
            };
            match (len_ok, elem_ok) {
                (Some(false), _) | (_, Some(false)) => Some(false),
                (Some(true), Some(true)) => Some(true),
                _ => None,
            }
        }
        _ => None,
    }
}

impl Property for C34 {
    type Case = Case;
    fn id(&self) -> &'static str {
        "C34"
    }
    fn rule(&self) -> String {
        "programs of 2-10 top-level bindings built from integer/float/string/boolean literals, arithmetic (+ - * // % with literal non-zero divisors), comparisons, list literals, push, list concatenation, len, constant indexing and two user functions, over earlier bindings. For every binding of an accepted program the type the checker inferred (read from the module context after an in-process compilation) is evaluated on the value the binding holds at run time (printed by the compiled program under CPython 3.11): classes, Nat's non-negativity, singleton / enum / interval refinements (predicates over ==, !=, <=, >=, and, or, not), List(T, N) element type and length. An accepted program must not raise IndexError. Types whose shape the evaluator does not model are counted, not judged. Non-trivial = >= 1 binding judged against a refinement or length-indexed type; distinct by source".into()
    }
    fn strategy(&self, _tier: Tier) -> BoxedStrategy<Case> {
        let e = prop_oneof![
            3 => any::<i8>().prop_map(|i| E::IntLit(i % 20)),
            4 => (any::<u8>(), any::<u32>(), any::<u32>(), any::<i8>()).prop_map(|(o, a, b, l)| E::Arith(o, a, b, l % 12)),
            1 => any::<u32>().prop_map(E::CallInc),
            1 => any::<u32>().prop_map(E::CallDouble),
            2 => any::<u32>().prop_map(E::Len),
            6 => (any::<u32>(), any::<u8>()).prop_map(|(a, i)| E::Index(a, i)),
            3 => proptest::collection::vec(-3i8..9, 0..4).prop_map(E::ListLit),
            4 => (any::<u32>(), -3i8..9).prop_map(|(a, v)| E::Push(a, v)),
            4 => (any::<u32>(), any::<u32>()).prop_map(|(a, b)| E::Concat(a, b)),
            1 => any::<u8>().prop_map(E::StrLit),
            1 => (any::<u32>(), any::<u32>()).prop_map(|(a, b)| E::StrCat(a, b)),
            1 => any::<bool>().prop_map(E::BoolLit),
            1 => (any::<u32>(), any::<u32>()).prop_map(|(a, b)| E::Cmp(a, b)),
            1 => any::<i8>().prop_map(E::FloatLit),
            1 => (any::<u32>(), any::<u32>()).prop_map(|(a, b)| E::FloatAdd(a, b)),
        ];
        proptest::collection::vec(e, 2..10).prop_map(|binds| Case { binds }).boxed()
    }
    fn cases(&self, tier: Tier) -> usize {
        tier.pick(2_500, 50_000)
    }
    fn mode(&self) -> Mode {
        Mode::Workers
    }
    fn panic_policy(&self) -> Policy {
        Policy::Discard
    }
    fn abort_policy(&self) -> Policy {
        Policy::Discard
    }
    fn setup(&self) {
        ergx::warm_python("3.11");
    }
    fn render(&self, case: &Case) -> serde_json::Value {
        json!({"source": build(case).src})
    }
    fn run(&self, case: &Case) -> Outcome {
        let b = build(case);
        let compiled = match ergx::compile(&b.src, "3.11", 1) {
            Ok(c) => c,
            Err(_) => return Outcome::discard("rejected by the checker"),
        };
        // the inferred types are read from the checked HIR (before linking / optimisation)
        let mut types: Vec<(String, Type)> = vec![];
        let mut hb = HIRBuilder::new(ergx::cfg_for(&b.src, "3.11", 1));
        match hb.build(b.src.clone(), "exec") {
            Ok(art) => {
                for chunk in art.object.module.iter() {
                    if let HExpr::Def(def) = chunk {
                        let id = def.sig.ident();
                        types.push((id.inspect().to_string(), id.vi.t.clone()));
                    }
                }
            }
            Err(_) => return Outcome::discard("checker-verdict-differs-between-compilations"),
        }
        let r = ergx::run_pyc(&compiled.pyc, "3.11", 20.0);
        let mut classes: Vec<String> = b.binds.iter().map(|x| format!("feature:{}", x.2)).collect();
        classes.sort();
        classes.dedup();
        let exc = r.exc.clone();
        let stdout = String::from_utf8_lossy(&r.stdout).to_string();
        if let Some(e) = &exc {
            if e == "IndexError" {
                let uses_concat_or_push = b.binds.iter().any(|x| x.2 == "push" || x.2 == "concatenation");
                return Outcome::fail(
                    if uses_concat_or_push { "an index accepted as in range raises IndexError (list built with push / concatenation)".to_string() } else { "an index accepted as in range raises IndexError".to_string() },
                    json!({"source": b.src, "message": vkit::util::truncate(&r.msg, 300)}),
                )
                .classes(classes);
            }
            return Outcome::discard(&format!("run raised {e}")).classes(classes);
        }
        let mut judged_dependent = 0;
        let mut unmodelled = 0;
        for (name, k, feat) in &b.binds {
            let Some(line) = stdout.lines().find(|l| l.starts_with(&format!("@@{name} ")) || *l == format!("@@{name}")) else { continue };
            let text = line.strip_prefix(&format!("@@{name}")).unwrap().strip_prefix(' ').unwrap_or("");
            let Some(v) = parse_value(*k, text) else { continue };
            let Some((_, t)) = types.iter().find(|(n, _)| n == name) else { continue };
            match member(t, &v) {
                Some(true) => {
                    if matches!(t, Type::Refinement(_) | Type::Poly { .. }) {
                        judged_dependent += 1;
                    }
                }
                Some(false) => {
                    let shape = match t {
                        Type::Never => "Never",
                        Type::Refinement(_) => "refinement",
                        Type::Poly { .. } => "List(T, N)",
                        _ => "class",
                    };
                    return Outcome::fail(
                        format!("run-time value outside the inferred {shape} type (binding built by {feat})"),
                        json!({"source": b.src, "binding": name, "inferred_type": t.to_string(), "run_time_value": text}),
                    )
                    .classes(classes);
                }
                None => unmodelled += 1,
            }
        }
        if unmodelled > 0 {
            classes.push("has-binding-with-unmodelled-type".into());
        }
        Outcome::pass(judged_dependent >= 1).classes(classes)
    }
}
