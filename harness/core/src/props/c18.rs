//! C18 — the JSON transpile target emits valid JSON with the bound values.
use crate::ergx;
use crate::gen::erg_str_lit;
use erg_common::config::{ErgConfig, TranspileTarget};
use erg_compiler::transpile::Transpiler;
use proptest::prelude::*;
use serde::{Deserialize, Serialize};
use serde_json::{json, Map, Value};
use vkit::engine::{Mode, Outcome, Policy, Property, Tier};

pub struct C18;

#[derive(Serialize, Deserialize, Clone, Debug)]
pub enum V {
    Nat(u64),
    Neg(u32),
    /// mantissa / 8 (exactly representable, printed with a decimal point)
    Flt(i32),
    /// +-10^exp as a float literal `1.0e<exp>` (integral floats beyond the i64 range included)
    BigFlt(bool, u8),
    Str(String),
    Bool(bool),
    None,
    List(Vec<V>),
    Tuple(Vec<V>),
    Record(Vec<(String, V)>),
    Dict(Vec<(String, V)>),
    /// reference to an earlier binding (index selector)
    Ref(u32),
    /// constant sum of two naturals
    Sum(u32, u32),
}

#[derive(Serialize, Deserialize, Clone, Debug)]
pub struct Case {
    pub binds: Vec<V>,
    /// private bindings interleaved (index selectors): must not appear in the output
    pub private_at: Vec<u8>,
}

fn flt_text(m: i32) -> String {
    let v = m as f64 / 8.0;
    let s = format!("{v}");
    if s.contains('.') { s } else { format!("{s}.0") }
}

fn erg(v: &V, names: &[String]) -> String {
    match v {
        V::Nat(n) => n.to_string(),
        V::Neg(n) => format!("-{}", *n as u64 + 1),
        V::Flt(m) => {
            if *m < 0 { format!("-{}", flt_text(-*m)) } else { flt_text(*m) }
        }
        V::BigFlt(neg, e) => format!("{}1.0e{}", if *neg { "-" } else { "" }, e % 23),
        V::Str(s) => erg_str_lit(s),
        V::Bool(b) => if *b { "True".into() } else { "False".into() },
        V::None => "None".into(),
        V::List(vs) => format!("[{}]", vs.iter().map(|x| erg(x, names)).collect::<Vec<_>>().join(", ")),
        V::Tuple(vs) => {
            if vs.len() == 1 { format!("({},)", erg(&vs[0], names)) } else { format!("({})", vs.iter().map(|x| erg(x, names)).collect::<Vec<_>>().join(", ")) }
        }
        V::Record(fs) => format!("{{{}}}", fs.iter().enumerate().map(|(i, (k, x))| format!(".{k}{i} = {}", erg(x, names))).collect::<Vec<_>>().join("; ")),
        V::Dict(kvs) => {
            if kvs.is_empty() { "{:}".into() } else { format!("{{{}}}", kvs.iter().enumerate().map(|(i, (k, x))| format!("{}: {}", erg_str_lit(&format!("{k}{i}")), erg(x, names))).collect::<Vec<_>>().join(", ")) }
        }
        V::Ref(r) => {
            if names.is_empty() { "0".into() } else { format!(".{}", names[vkit::util::idx(*r, names.len())]) }
        }
        V::Sum(a, b) => format!("{a} + {b}"),
    }
}

fn model(v: &V, earlier: &[Value]) -> Value {
    match v {
        V::Nat(n) => json!(n),
        V::Neg(n) => json!(-(*n as i64 + 1)),
        V::Flt(m) => json!(*m as f64 / 8.0),
        V::BigFlt(neg, e) => json!(format!("{}1.0e{}", if *neg { "-" } else { "" }, e % 23).parse::<f64>().unwrap()),
        V::Str(s) => {
            // `\t` in an Erg string literal denotes four spaces
            json!(s.replace('\t', "    "))
        }
        V::Bool(b) => json!(b),
        V::None => Value::Null,
        V::List(vs) | V::Tuple(vs) => Value::Array(vs.iter().map(|x| model(x, earlier)).collect()),
        V::Record(fs) => {
            let mut m = Map::new();
            for (i, (k, x)) in fs.iter().enumerate() {
                m.insert(format!("{k}{i}"), model(x, earlier));
            }
            Value::Object(m)
        }
        V::Dict(kvs) => {
            let mut m = Map::new();
            for (i, (k, x)) in kvs.iter().enumerate() {
                m.insert(format!("{k}{i}").replace('\t', "    "), model(x, earlier));
            }
            Value::Object(m)
        }
        V::Ref(r) => {
            if earlier.is_empty() { json!(0) } else { earlier[vkit::util::idx(*r, earlier.len())].clone() }
        }
        V::Sum(a, b) => json!(*a as u64 + *b as u64),
    }
}

fn scalar() -> BoxedStrategy<V> {
    let s = prop_oneof![
        3 => "[ -~]{0,8}",
        2 => "[a-z\"\\\\/{}'\n\t]{0,6}",
        1 => "[é日本😀ß\u{7f}]{0,3}",
        1 => "[a-c\u{1}-\u{8}\u{b}\u{c}\u{e}-\u{1f}]{1,4}",
    ];
    prop_oneof![
        3 => prop_oneof![0u64..100, Just(2147483648u64), Just(4294967296u64), Just(u64::MAX), any::<u32>().prop_map(|x| x as u64)].prop_map(V::Nat),
        2 => (0u32..2147483647).prop_map(V::Neg),
        2 => (-4000i32..4000).prop_map(V::Flt),
        1 => (any::<bool>(), 0u8..23).prop_map(|(n, e)| V::BigFlt(n, e)),
        4 => s.prop_map(V::Str),
        2 => any::<bool>().prop_map(V::Bool),
        1 => Just(V::None),
        1 => any::<u32>().prop_map(V::Ref),
        1 => (0u32..1000, 0u32..1000).prop_map(|(a, b)| V::Sum(a, b)),
    ]
    .boxed()
}

fn value() -> BoxedStrategy<V> {
    scalar()
        .prop_recursive(3, 16, 4, |inner| {
            let key = "[a-z]{1,4}";
            prop_oneof![
                // homogeneous lists: elements of one generated shape repeated with variations are
                // not guaranteed homogeneous, so lists hold copies of one element kind
                2 => (inner.clone(), 0usize..4).prop_map(|(x, n)| V::List(vec![x; n])),
                2 => proptest::collection::vec(inner.clone(), 1..4).prop_map(V::Tuple),
                2 => proptest::collection::vec((key, inner.clone()), 1..4).prop_map(V::Record),
                2 => (inner.clone(), proptest::collection::vec("[a-z \"\\\\]{0,4}", 0..4)).prop_map(|(x, ks)| V::Dict(ks.into_iter().map(|k| (k, x.clone())).collect())),
            ]
        })
        .boxed()
}

fn contains_ref(v: &V) -> bool {
    match v {
        V::Ref(_) => true,
        V::List(vs) | V::Tuple(vs) => vs.iter().any(contains_ref),
        V::Record(fs) | V::Dict(fs) => fs.iter().any(|(_, x)| contains_ref(x)),
        _ => false,
    }
}

fn build(case: &Case) -> (String, Value, usize) {
    let mut src = String::new();
    let mut names: Vec<String> = vec![];
    let mut vals: Vec<Value> = vec![];
    let mut expect = Map::new();
    let mut interesting = 0;
    for (i, v) in case.binds.iter().enumerate() {
        if case.private_at.contains(&(i as u8)) {
            src.push_str(&format!("hidden{i} = {i}\n"));
        }
        // references inside containers are kept at top level only (the statement speaks of constant initialisers)
        let v = if contains_ref(v) && !matches!(v, V::Ref(_)) { V::None } else { v.clone() };
        let name = format!("k{i}");
        src.push_str(&format!(".{name} = {}\n", erg(&v, &names)));
        let m = model(&v, &vals);
        if !matches!(v, V::Nat(_) | V::Neg(_) | V::Flt(_) | V::BigFlt(..)) {
            interesting += 1;
        }
        expect.insert(name.clone(), m.clone());
        names.push(name);
        vals.push(m);
    }
    (src, Value::Object(expect), interesting)
}

fn transpile_json(src: &str) -> Result<String, String> {
    let mut cfg: ErgConfig = ergx::cfg_for(src, "3.11", 1);
    cfg.transpile_target = Some(TranspileTarget::Json);
    let mut t = Transpiler::new(cfg);
    match t.transpile(src.to_string(), "exec") {
        Ok(arti) => Ok(arti.object.into_code()),
        Err(e) => Err(e.errors.iter().next().map(|e| format!("{:?}: {}", e.core.kind, e.core.main_message)).unwrap_or_default()),
    }
}

fn approx_eq(a: &Value, b: &Value) -> bool {
    match (a, b) {
        (Value::Number(x), Value::Number(y)) => {
            if x.is_f64() || y.is_f64() { x.as_f64() == y.as_f64() && (x.is_f64() == y.is_f64() || x.as_f64().map(|f| f.fract() == 0.0).unwrap_or(false)) } else { x == y }
        }
        (Value::Array(x), Value::Array(y)) => x.len() == y.len() && x.iter().zip(y.iter()).all(|(p, q)| approx_eq(p, q)),
        (Value::Object(x), Value::Object(y)) => x.len() == y.len() && x.iter().all(|(k, p)| y.get(k).map(|q| approx_eq(p, q)).unwrap_or(false)),
        _ => a == b,
    }
}

impl Property for C18 {
    type Case = Case;
    fn id(&self) -> &'static str {
        "C18"
    }
    fn rule(&self) -> String {
        "modules of 1-6 public bindings `.k = v` (with private bindings interleaved) whose initialisers come from a value grammar of depth <= 3: naturals up to 2**64-1, negative integers, floats, strings over printable ASCII / quotes / backslashes / slashes / braces / newlines / tabs / DEL / non-ASCII incl. astral, True/False, None, lists, tuples, records, string-keyed dicts (keys with quotes and backslashes), references to earlier public bindings and constant sums. Oracle: the JSON-target output must parse with a strict JSON parser (serde_json) into exactly the object the generator's model predicts (tuples as arrays, records/dicts as objects, None as null; private bindings absent; floats stay floats). A module the transpiler declines with a diagnostic is counted, not judged. Non-trivial = contains a string, boolean, None or container; distinct by source".into()
    }
    fn strategy(&self, _tier: Tier) -> BoxedStrategy<Case> {
        (proptest::collection::vec(value(), 1..7), proptest::collection::vec(0u8..6, 0..3)).prop_map(|(binds, private_at)| Case { binds, private_at }).boxed()
    }
    fn cases(&self, tier: Tier) -> usize {
        tier.pick(4_000, 100_000)
    }
    fn mode(&self) -> Mode {
        Mode::Workers
    }
    fn panic_policy(&self) -> Policy {
        Policy::Fail
    }
    fn render(&self, case: &Case) -> Value {
        let (src, expect, _) = build(case);
        json!({"source": src, "expected": expect})
    }
    fn run(&self, case: &Case) -> Outcome {
        let (src, expect, interesting) = build(case);
        let out = match transpile_json(&src) {
            Ok(o) => o,
            Err(e) => {
                let kind = e.split(':').next().unwrap_or("").to_string();
                let mut o = Outcome::discard("declined-with-diagnostic").class(format!("declined:{kind}"));
                o.detail = json!({"source": src, "diagnostic": vkit::util::truncate(&e, 200)});
                return o;
            }
        };
        let parsed: Value = match serde_json::from_str(&out) {
            Ok(v) => v,
            Err(e) => {
                let what: String = e.to_string().split(" at line").next().unwrap_or("").chars().take(50).collect();
                return Outcome::fail(format!("output is not valid JSON: {what}"), json!({"source": src, "output": vkit::util::truncate(&out, 1500)}));
            }
        };
        if !approx_eq(&parsed, &expect) {
            if has_double_quote_edge(&expect) {
                // known family: the token text `"\"\"x"` reads `"""x"` and is taken for a multi-line literal
                return Outcome::fail(
                    "a string literal beginning or ending with two quote characters loses them",
                    json!({"source": src, "output": vkit::util::truncate(&out, 1500), "expected": expect}),
                );
            }
            // which binding differs first
            let mut which = String::new();
            if let (Value::Object(p), Value::Object(x)) = (&parsed, &expect) {
                for (k, v) in x {
                    match p.get(k) {
                        None => { which = format!("binding missing ({})", kind_of(v)); break; }
                        Some(pv) if !approx_eq(pv, v) => { which = format!("{} differs", kind_of(v)); break; }
                        _ => {}
                    }
                }
                if which.is_empty() { which = "extra bindings in the output".into(); }
            }
            return Outcome::fail(format!("JSON value differs from the bound value: {which}"), json!({"source": src, "output": vkit::util::truncate(&out, 1500), "expected": expect}));
        }
        Outcome::pass(interesting > 0)
    }
}

fn has_double_quote_edge(v: &Value) -> bool {
    let edge = |s: &str| s.starts_with("\"\"") || s.ends_with("\"\"");
    match v {
        Value::String(s) => edge(s),
        Value::Array(a) => a.iter().any(has_double_quote_edge),
        Value::Object(o) => o.iter().any(|(k, x)| edge(k) || has_double_quote_edge(x)),
        _ => false,
    }
}

fn kind_of(v: &Value) -> &'static str {
    match v {
        Value::Null => "null",
        Value::Bool(_) => "boolean",
        Value::Number(n) => if n.is_f64() { "float" } else { "integer" },
        Value::String(_) => "string",
        Value::Array(_) => "array",
        Value::Object(_) => "object",
    }
}
