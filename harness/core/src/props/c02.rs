//! C02 — accepted programs do not fail with run-time type errors.
//! C17 — transpiled Python behaves like the compiled bytecode.
use crate::ergx;
use crate::gen::{tape_strategy, GenCfg};
use crate::progrun::{self, Compiled};
use erg_common::config::{ErgConfig, TranspileTarget};
use erg_compiler::transpile::Transpiler;
use proptest::prelude::*;
use serde::{Deserialize, Serialize};
use serde_json::json;
use vkit::engine::{Mode, Outcome, Policy, Property, Tier};
use vkit::util::idx;

#[derive(Serialize, Deserialize, Clone, Debug)]
pub struct Case {
    pub tape: Vec<u32>,
    #[serde(default)]
    pub explicit: Option<String>,
    /// corpus file selector (C17)
    #[serde(default)]
    pub corpus: Option<u32>,
    #[serde(default)]
    pub generated_signature: bool,
}

pub struct C02;

fn cfg02() -> GenCfg {
    GenCfg { negative_bias: true, exits: false, ..GenCfg::default() }
}

const TYPE_ERRORS: &[&str] = &["TypeError", "AttributeError", "NameError", "UnboundLocalError"];

impl Property for C02 {
    type Case = Case;
    fn id(&self) -> &'static str {
        "C02"
    }
    fn rule(&self) -> String {
        "fragment programs with operands biased to negative and mixed-sign values (Int literals mostly negative, Nat/Int/Float mixes, results flowing into .succ()/.pred()/abs/str/len, annotated bindings, user functions and lambdas, method calls). Oracle (validity predicate on the run of the compiled program): the uncaught exception is not TypeError, AttributeError, NameError or UnboundLocalError, and not a value-constraint error of Erg's runtime classes (an exception whose innermost frame is a `raise` statement inside lib/core/_erg_*.py); ZeroDivisionError, IndexError, AssertionError, OverflowError and exit are allowed. Non-trivial = accepted and contains a negative literal or a mixed-class operation; distinct by source text".into()
    }
    fn strategy(&self, tier: Tier) -> BoxedStrategy<Case> {
        tape_strategy(tier.pick(160, 320)).prop_map(|tape| Case { tape, explicit: None, corpus: None, generated_signature: false }).boxed()
    }
    fn cases(&self, tier: Tier) -> usize {
        tier.pick(3_000, 60_000)
    }
    fn mode(&self) -> Mode {
        Mode::Workers
    }
    fn panic_policy(&self) -> Policy {
        Policy::Discard
    }
    fn abort_policy(&self) -> Policy {
        Policy::Discard
    }
    fn setup(&self) {
        ergx::warm_python("3.11");
    }
    fn render(&self, case: &Case) -> serde_json::Value {
        match &case.explicit {
            Some(s) => json!(s),
            None => json!(progrun::build(&case.tape, cfg02()).erg),
        }
    }
    fn shrink_budget(&self) -> usize {
        120
    }
    fn run(&self, case: &Case) -> Outcome {
        let (src, features) = match &case.explicit {
            Some(s) => (s.clone(), vec!["explicit-source".to_string()]),
            None => {
                let b = progrun::build(&case.tape, cfg02());
                (b.erg, b.features)
            }
        };
        let compiled = match progrun::compile(&src, "3.11", 1) {
            Compiled::Ok(c) => c,
            Compiled::Rejected(d) => return progrun::rejected_outcome(&d),
        };
        let r = ergx::run_pyc(&compiled.pyc, "3.11", 30.0);
        if r.timeout || r.died {
            return Outcome::inconclusive("run-timeout-or-died");
        }
        let pin = |s: String| if case.explicit.is_some() && !case.generated_signature { format!("pinned: {s}") } else { s };
        if let Some(exc) = &r.exc {
            let in_runtime_lib = r.frame_file.replace('\\', "/").contains("/lib/core/_erg_");
            let is_raise = r.frame_text.trim_start().starts_with("raise ");
            if TYPE_ERRORS.contains(&exc.as_str()) {
                // confirm in a fresh process along the product path
                let p = vkit::util::work_dir().join("c02_confirm.pyc");
                let _ = std::fs::write(&p, &compiled.pyc);
                let (_o, e, _s) = vkit::pyexec::fresh_run_pyc("3.11", &p, None);
                if vkit::pyexec::exc_type_from_stderr(&e).as_deref() != Some(exc.as_str()) {
                    return Outcome::inconclusive("exception-not-confirmed-in-fresh-process");
                }
                return Outcome::fail(pin(format!("accepted program raises {exc}: {}", vkit::panics::norm_msg(&r.msg))), json!({"erg": src, "run": r.summary()}));
            }
            if in_runtime_lib && is_raise {
                // the recorded family needs a loop body; a straight-line program is another matter
                let ctx = if src.contains("for! ") || src.contains("while! ") { "inside a loop" } else { "straight-line code" };
                return Outcome::fail(
                    pin(format!("accepted program violates a runtime class constraint ({ctx}): {exc}: {}", vkit::panics::norm_msg(&r.msg))),
                    json!({"erg": src, "run": r.summary()}),
                );
            }
        }
        let nt = features.iter().any(|f| f == "lit:negative-int" || f == "op:mixed-float-int" || f == "op:unary-minus");
        let mut o = Outcome::pass(nt).classes(features);
        if let Some(e) = &r.exc {
            o = o.class(format!("allowed-exception:{e}"));
        }
        o
    }
}

pub struct C17;

fn cfg17() -> GenCfg {
    GenCfg { wild_strings: true, no_while: true, no_interp: true, no_defaults: true, no_if_expr: true, no_range_loops: true, no_if_stmt: true, ..GenCfg::default() }
}

fn transpile(src: &str) -> Result<String, String> {
    let mut cfg: ErgConfig = ergx::cfg_for(src, "3.11", 1);
    cfg.transpile_target = Some(TranspileTarget::Python);
    let mut t = Transpiler::new(cfg);
    match t.transpile(src.to_string(), "exec") {
        Ok(arti) => Ok(arti.object.into_code()),
        Err(e) => Err(e.errors.iter().next().map(|e| e.core.main_message.to_string()).unwrap_or_default()),
    }
}

impl Property for C17 {
    type Case = Case;
    fn id(&self) -> &'static str {
        "C17"
    }
    fn rule(&self) -> String {
        "fragment programs with wild string contents (quotes, apostrophes, backslashes, braces, newlines, tabs, NUL, BMP and astral characters, percent and brace format look-alikes) and the repository's import-free .er files; Transpiler::transpile in-process (target Python). Oracle: when a script is produced (a 'not implemented' panic or diagnostics = declined, counted) it must compile under CPython 3.11 and its run must give the same stdout bytes, exception type and exit status as the bytecode compiled from the same source (differences confirmed in fresh processes). Non-trivial = script produced and the program prints a string with one of \" ' \\ { } or a non-ASCII character, or uses control flow; distinct by source text".into()
    }
    fn strategy(&self, tier: Tier) -> BoxedStrategy<Case> {
        tape_strategy(tier.pick(140, 280)).prop_map(|tape| Case { tape, explicit: None, corpus: None, generated_signature: false }).boxed()
    }
    fn cases(&self, tier: Tier) -> usize {
        tier.pick(2_000, 40_000)
    }
    fn mode(&self) -> Mode {
        Mode::Workers
    }
    fn panic_policy(&self) -> Policy {
        Policy::Discard // "not yet implemented" = declined
    }
    fn abort_policy(&self) -> Policy {
        Policy::Discard
    }
    fn setup(&self) {
        ergx::warm_python("3.11");
    }
    fn render(&self, case: &Case) -> serde_json::Value {
        json!(vkit::util::truncate(&self.source(case).map(|x| x.0).unwrap_or_default(), 3000))
    }
    fn shrink_budget(&self) -> usize {
        120
    }
    fn run(&self, case: &Case) -> Outcome {
        let Some((src, features)) = self.source(case) else { return Outcome::discard("no-source") };
        let compiled = match progrun::compile(&src, "3.11", 1) {
            Compiled::Ok(c) => c,
            Compiled::Rejected(d) => return progrun::rejected_outcome(&d),
        };
        let script = match transpile(&src) {
            Ok(s) => s,
            Err(_) => return Outcome::discard("transpiler-declined-with-diagnostics"),
        };
        let br = ergx::run_pyc(&compiled.pyc, "3.11", 30.0);
        let sr = ergx::run_py(&script, "3.11", 30.0);
        if br.timeout || sr.timeout || br.died || sr.died {
            return Outcome::inconclusive("run-timeout-or-died");
        }
        let pin = |s: String| if case.explicit.is_some() && !case.generated_signature { format!("pinned: {s}") } else { s };
        if sr.phase == "load" && sr.exc.is_some() {
            return Outcome::fail(
                pin(format!("the transpiled script is not valid Python: {}", vkit::panics::norm_msg(&sr.msg.chars().take(60).collect::<String>()))),
                json!({"erg": vkit::util::truncate(&src, 2000), "script": vkit::util::truncate(&script, 3000), "error": sr.msg}),
            );
        }
        if !progrun::same_obs(&br, &sr) {
            let dir = vkit::util::work_dir();
            let (p0, p1) = (dir.join("c17.pyc"), dir.join("c17.py"));
            let _ = std::fs::write(&p0, &compiled.pyc);
            let _ = std::fs::write(&p1, &script);
            let a = vkit::pyexec::fresh_run_pyc("3.11", &p0, None);
            let b = vkit::pyexec::fresh_run_py("3.11", &p1, None);
            if a.0 == b.0 && a.2 == b.2 && vkit::pyexec::exc_type_from_stderr(&a.1) == vkit::pyexec::exc_type_from_stderr(&b.1) {
                return Outcome::inconclusive("difference-not-confirmed-in-fresh-processes");
            }
            let kind = progrun::diff_kind(&sr, &br).replace("compiled program", "transpiled script").replace("the source means", "the bytecode has");
            return Outcome::fail(
                pin(kind),
                json!({"erg": vkit::util::truncate(&src, 2000), "script": vkit::util::truncate(&script, 3000), "bytecode_run": br.summary(), "script_run": sr.summary()}),
            );
        }
        let nt = features.iter().any(|f| f == "lit:wild-string" || f.starts_with("stmt:for") || f == "stmt:if" || f == "corpus");
        Outcome::pass(nt && !br.stdout.is_empty()).classes(features).class("script-produced")
    }
}

impl C17 {
    fn source(&self, case: &Case) -> Option<(String, Vec<String>)> {
        if let Some(s) = &case.explicit {
            return Some((s.clone(), vec!["explicit-source".into()]));
        }
        if let Some(f) = case.corpus {
            let c = super::c08::corpus();
            if c.is_empty() {
                return None;
            }
            let s = c[idx(f, c.len())].clone();
            if s.contains("import") || s.contains("input!") || s.contains("open!") {
                return None;
            }
            return Some((s, vec!["corpus".into()]));
        }
        let b = progrun::build(&case.tape, cfg17());
        Some((b.erg, b.features))
    }
}
