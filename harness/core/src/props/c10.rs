//! C10 — parsing is deterministic and insensitive to comments and layout.
use erg_common::traits::{DequeStream, Stream};
use erg_parser::lex::Lexer;
use erg_parser::parse::SimpleParser;
use erg_parser::token::{Token, TokenCategory, TokenKind};
use proptest::prelude::*;
use serde::{Deserialize, Serialize};
use serde_json::json;
use vkit::engine::{Mode, Outcome, Policy, Property, Tier};
use vkit::util::{hash_str, idx};

use super::c08::corpus;

pub struct C10;

#[derive(Serialize, Deserialize, Clone, Debug)]
pub enum Rewrite {
    /// ` # text` before a line end
    LineComment(u32, u32),
    /// ` #[ text ]# ` in a one-space gap between two tokens
    BlockComment(u32, u32),
    /// an empty line after a line end
    BlankLine(u32),
    /// spaces before a line end
    TrailingSpaces(u32, u8),
    /// ` \` + newline in a gap that follows a binary operator or comma
    Continuation(u32),
    /// `(`..`)` around a numeric literal / identifier operand that follows a binary operator
    Parens(u32),
}

#[derive(Serialize, Deserialize, Clone, Debug)]
pub struct Case {
    pub file: u32,
    pub rewrites: Vec<Rewrite>,
    /// self-contained source (pinned replays); generated cases take a corpus file
    #[serde(default)]
    pub src: Option<String>,
}

fn source_of(case: &Case) -> Option<(String, String)> {
    if let Some(s) = &case.src {
        return fingerprint(s).ok().map(|f| (s.clone(), f));
    }
    let c = parsing_corpus();
    if c.is_empty() {
        return None;
    }
    Some(c[idx(case.file, c.len())].clone())
}

const COMMENTS: &[&str] = &["c", "x = 1", "\"quote", "'''", "#", "日本語", "]", "-> {", "\\"];

pub fn fingerprint(src: &str) -> Result<String, String> {
    match SimpleParser::parse(src.to_string()) {
        Ok(art) => Ok(blank_positions(&format!("{:?}", art.ast))),
        Err(iart) => Err(iart.errors.to_string()),
    }
}

/// the derived Debug rendering with the numeric values of the position fields blanked
pub fn blank_positions(dbg: &str) -> String {
    let keys = ["lineno: ", "col_begin: ", "col_end: ", "ln_begin: ", "ln_end: "];
    let mut out = String::with_capacity(dbg.len());
    let b = dbg.as_bytes();
    let mut i = 0;
    'outer: while i < b.len() {
        for k in keys {
            if dbg[i..].starts_with(k) {
                out.push_str(k);
                i += k.len();
                while i < b.len() && b[i].is_ascii_digit() {
                    i += 1;
                }
                out.push('_');
                continue 'outer;
            }
        }
        // advance one char
        let ch = dbg[i..].chars().next().unwrap();
        out.push(ch);
        i += ch.len_utf8();
    }
    out
}

struct Site {
    /// char offset into the source where text is inserted / replaced
    at: usize,
    /// number of chars replaced
    del: usize,
    text: String,
}

fn line_starts(chars: &[char]) -> Vec<usize> {
    let mut v = vec![0];
    for (i, c) in chars.iter().enumerate() {
        if *c == '\n' {
            v.push(i + 1);
        }
    }
    v
}

fn single_line(t: &Token) -> bool {
    !t.content.contains('\n')
}

/// Applies the rewrites at token boundaries taken from the lexer's own token stream.
pub fn apply(src: &str, rewrites: &[Rewrite]) -> (String, usize) {
    let Ok(ts) = Lexer::from_str(src.to_string()).lex() else { return (src.to_string(), 0) };
    let toks: Vec<Token> = ts.iter().cloned().collect();
    let chars: Vec<char> = src.chars().collect();
    let starts = line_starts(&chars);
    let off = |line: u32, col: u32| -> Option<usize> { starts.get(line as usize - 1).map(|s| s + col as usize) };
    // candidate sites
    let mut newlines: Vec<usize> = vec![]; // offsets of '\n' chars that are Newline tokens
    let mut gaps: Vec<(usize, usize)> = vec![]; // (offset of the single space, index of next token)
    let mut operands: Vec<(usize, usize)> = vec![]; // (start, end) of operand tokens after a binary operator
    for (k, t) in toks.iter().enumerate() {
        if t.kind == TokenKind::Newline && k > 0 {
            let p = &toks[k - 1];
            let has_token_before = p.lineno == t.lineno && !matches!(p.kind, TokenKind::Newline | TokenKind::Indent | TokenKind::Dedent) && single_line(p) && p.col_end == t.col_begin;
            if let Some(o) = off(t.lineno, t.col_begin) {
                if chars.get(o) == Some(&'\n') && has_token_before {
                    newlines.push(o);
                }
            }
        }
        if k > 0 {
            let p = &toks[k - 1];
            let real = |x: &Token| !matches!(x.kind, TokenKind::Newline | TokenKind::Indent | TokenKind::Dedent | TokenKind::EOF | TokenKind::BOF);
            if real(p) && real(t) && p.lineno == t.lineno && single_line(p) && single_line(t) && t.col_begin == p.col_end + 1 {
                if let Some(o) = off(p.lineno, p.col_end) {
                    if chars.get(o) == Some(&' ') {
                        gaps.push((o, k));
                    }
                }
            }
            if (p.category_is(TokenCategory::BinOp) || matches!(p.kind, TokenKind::PrePlus | TokenKind::PreMinus | TokenKind::PreBitNot | TokenKind::Assign))
                && matches!(t.kind, TokenKind::NatLit | TokenKind::IntLit | TokenKind::RatioLit | TokenKind::Symbol)
                && single_line(t)
            {
                let next = toks.get(k + 1);
                let follows_ok = next
                    .map(|n| {
                        matches!(n.kind, TokenKind::Newline | TokenKind::RParen | TokenKind::Comma | TokenKind::EOF | TokenKind::RSqBr)
                            || (n.kind == TokenKind::Dot && n.col_begin == t.col_end && t.kind == TokenKind::Symbol)
                            || (n.category_is(TokenCategory::BinOp) && n.col_begin > t.col_end)
                    })
                    .unwrap_or(true);
                if follows_ok {
                    if let (Some(a), Some(b)) = (off(t.lineno, t.col_begin), off(t.lineno, t.col_end)) {
                        let text: String = chars[a..b.min(chars.len())].iter().collect();
                        if text == t.content.to_string() {
                            operands.push((a, b));
                        }
                    }
                }
            }
        }
    }
    let mut sites: Vec<Site> = vec![];
    for r in rewrites {
        match r {
            Rewrite::LineComment(at, c) if !newlines.is_empty() => {
                let o = newlines[idx(*at, newlines.len())];
                sites.push(Site { at: o, del: 0, text: format!(" # {}", COMMENTS[idx(*c, COMMENTS.len())]) });
            }
            Rewrite::BlockComment(at, c) if !gaps.is_empty() => {
                let (o, _) = gaps[idx(*at, gaps.len())];
                let c = COMMENTS[idx(*c, COMMENTS.len())].replace(']', ")");
                sites.push(Site { at: o, del: 1, text: format!(" #[ {c} ]# ") });
            }
            Rewrite::BlankLine(at) if !newlines.is_empty() => {
                let o = newlines[idx(*at, newlines.len())];
                sites.push(Site { at: o, del: 0, text: "\n".into() });
            }
            Rewrite::TrailingSpaces(at, n) if !newlines.is_empty() => {
                let o = newlines[idx(*at, newlines.len())];
                sites.push(Site { at: o, del: 0, text: " ".repeat(1 + (*n % 4) as usize) });
            }
            Rewrite::Continuation(at) => {
                let cands: Vec<usize> = gaps
                    .iter()
                    .filter(|(_, k)| {
                        let p = &toks[*k - 1];
                        (p.category_is(TokenCategory::BinOp) || p.kind == TokenKind::Comma) && !matches!(toks[*k].kind, TokenKind::Newline)
                    })
                    .map(|(o, _)| *o)
                    .collect();
                if !cands.is_empty() {
                    let o = cands[idx(*at, cands.len())];
                    sites.push(Site { at: o, del: 1, text: " \\\n        ".into() });
                }
            }
            Rewrite::Parens(at) if !operands.is_empty() => {
                let (a, b) = operands[idx(*at, operands.len())];
                sites.push(Site { at: a, del: 0, text: "(".into() });
                sites.push(Site { at: b, del: 0, text: ")".into() });
            }
            _ => {}
        }
    }
    // apply from the back; at one offset the order is: closing parenthesis, trailing spaces,
    // line comment, blank lines; or closing parenthesis + one gap replacement
    sites.sort_by(|x, y| y.at.cmp(&x.at));
    let mut out = chars.clone();
    let mut applied = 0;
    let mut k = 0;
    while k < sites.len() {
        let at = sites[k].at;
        let mut j = k;
        while j < sites.len() && sites[j].at == at {
            j += 1;
        }
        let group = &sites[k..j];
        let mut text = String::new();
        let mut del = 0;
        if group.iter().any(|s| s.text == ")") {
            text.push(')');
            applied += 1;
        }
        if group.iter().any(|s| s.text == "(") {
            text.push('(');
        }
        if let Some(r) = group.iter().find(|s| s.del > 0) {
            text.push_str(&r.text);
            del = r.del;
            applied += 1;
        } else {
            if let Some(sp) = group.iter().find(|s| !s.text.is_empty() && s.text.chars().all(|c| c == ' ')) {
                text.push_str(&sp.text);
                applied += 1;
            }
            if let Some(c) = group.iter().find(|s| s.text.starts_with(" # ")) {
                text.push_str(&c.text);
                applied += 1;
            }
            for _ in group.iter().filter(|s| s.text == "\n") {
                text.push('\n');
                applied += 1;
            }
        }
        out.splice(at..at + del, text.chars());
        k = j;
    }
    (out.into_iter().collect(), applied)
}

pub fn rewritten(case: &Case) -> String {
    let Some((src, _)) = source_of(case) else { return String::new() };
    apply(&src, &case.rewrites).0
}

fn parsing_corpus() -> &'static Vec<(String, String)> {
    static C: std::sync::OnceLock<Vec<(String, String)>> = std::sync::OnceLock::new();
    C.get_or_init(|| corpus().iter().cloned().chain(super::c11::sample_sources(150, 6)).filter_map(|s| fingerprint(&s).ok().map(|f| (s.clone(), f))).collect())
}

impl Property for C10 {
    type Case = Case;
    fn id(&self) -> &'static str {
        "C10"
    }
    fn rule(&self) -> String {
        "every corpus program that parses (tests/should_ok, should_err, examples, parser and els tests) under 1-8 random layout rewrites applied at token boundaries taken from the lexer's own token stream: line comments and trailing spaces before line ends, `#[ ]#` comments in one-space gaps between tokens, blank lines, backslash continuations after a binary operator or comma, redundant parentheses around a numeric-literal or identifier operand that follows a binary operator. Oracle: the Debug rendering of the parsed Module with the numeric values of position fields blanked is unchanged; the same text parsed twice in-process and once in a fresh process gives the identical rendering. Non-trivial = >= 2 rewrites actually applied; distinct by (file, rewritten text)".into()
    }
    fn assumptions(&self) -> Vec<String> {
        vec!["token positions reported by the lexer are faithful (checked by C08)".into()]
    }
    fn strategy(&self, _tier: Tier) -> BoxedStrategy<Case> {
        let rw = prop_oneof![
            3 => (any::<u32>(), any::<u32>()).prop_map(|(a, b)| Rewrite::LineComment(a, b)),
            3 => (any::<u32>(), any::<u32>()).prop_map(|(a, b)| Rewrite::BlockComment(a, b)),
            2 => any::<u32>().prop_map(Rewrite::BlankLine),
            2 => (any::<u32>(), any::<u8>()).prop_map(|(a, b)| Rewrite::TrailingSpaces(a, b)),
            2 => any::<u32>().prop_map(Rewrite::Continuation),
            3 => any::<u32>().prop_map(Rewrite::Parens),
        ];
        (any::<u32>(), proptest::collection::vec(rw, 1..=8)).prop_map(|(file, rewrites)| Case { file, rewrites, src: None }).boxed()
    }
    fn cases(&self, tier: Tier) -> usize {
        tier.pick(60_000, 1_500_000)
    }
    fn mode(&self) -> Mode {
        Mode::Workers
    }
    fn panic_policy(&self) -> Policy {
        Policy::Discard // parser crashes are C09's subject
    }
    fn abort_policy(&self) -> Policy {
        Policy::Discard
    }
    fn render(&self, case: &Case) -> serde_json::Value {
        let c = parsing_corpus();
        let Some((src, _)) = source_of(case) else { return json!(null) };
        let src = &src;
        let (out, n) = apply(src, &case.rewrites);
        // show only the changed lines
        let a: Vec<&str> = src.lines().collect();
        let changed: Vec<String> = out.lines().filter(|l| !a.contains(l)).take(8).map(|s| s.to_string()).collect();
        json!({"file_index": idx(case.file, c.len()), "applied": n, "rewrites": format!("{:?}", case.rewrites), "changed_lines": changed})
    }
    fn run(&self, case: &Case) -> Outcome {
        let c = parsing_corpus();
        let Some((src, fp0)) = source_of(case) else { return Outcome::inconclusive("no-corpus") };
        let (src, fp0) = (&src, &fp0);
        // determinism, same process
        match fingerprint(src) {
            Ok(f) if &f == fp0 => {}
            other => {
                return Outcome::fail(
                    "same text parsed twice gives different trees",
                    json!({"file_index": idx(case.file, c.len()), "second": other.map(|f| hash_str(&f).to_string())}),
                )
            }
        }
        let (out, applied) = apply(src, &case.rewrites);
        if applied == 0 {
            return Outcome::discard("no-site");
        }
        let kinds: Vec<String> = case
            .rewrites
            .iter()
            .map(|r| match r {
                Rewrite::LineComment(..) => "rw:line-comment",
                Rewrite::BlockComment(..) => "rw:block-comment",
                Rewrite::BlankLine(..) => "rw:blank-line",
                Rewrite::TrailingSpaces(..) => "rw:trailing-spaces",
                Rewrite::Continuation(..) => "rw:continuation",
                Rewrite::Parens(..) => "rw:parens",
            })
            .map(|s| s.to_string())
            .collect();
        let sig_kind = {
            let mut k = kinds.clone();
            k.sort();
            k.dedup();
            k.join("+")
        };
        match fingerprint(&out) {
            Ok(f) => {
                if &f != fp0 {
                    // first differing line of the two renderings
                    let (mut la, mut lb) = (String::new(), String::new());
                    for (x, y) in fp0.split(',').zip(f.split(',')) {
                        if x != y {
                            la = x.chars().take(160).collect();
                            lb = y.chars().take(160).collect();
                            break;
                        }
                    }
                    let a: Vec<&str> = src.lines().collect();
                    let changed: Vec<String> = out.lines().filter(|l| !a.contains(l)).take(8).map(|s| s.to_string()).collect();
                    return Outcome::fail(
                        format!("tree changed by {sig_kind}"),
                        json!({"file_index": idx(case.file, c.len()), "changed_lines": changed, "original_tree_part": la, "rewritten_tree_part": lb}),
                    );
                }
            }
            Err(e) => {
                let a: Vec<&str> = src.lines().collect();
                let changed: Vec<String> = out.lines().filter(|l| !a.contains(l)).take(8).map(|s| s.to_string()).collect();
                return Outcome::fail(
                    format!("rewritten text no longer parses after {sig_kind}"),
                    json!({"file_index": idx(case.file, c.len()), "changed_lines": changed, "errors": vkit::util::truncate(&e, 500)}),
                );
            }
        }
        // determinism across processes for a sample
        let h = hash_str(&out);
        if h % 64 == 0 {
            let p = vkit::util::work_dir().join("c10.er");
            let _ = std::fs::write(&p, &out);
            let exe = std::env::current_exe().unwrap();
            if let Ok(o) = std::process::Command::new(exe).arg("dbg").arg("fp").arg(&p).output() {
                let other = String::from_utf8_lossy(&o.stdout).trim().to_string();
                let mine = hash_str(fp0).to_string();
                if other != mine {
                    return Outcome::fail(
                        "a fresh process parses the same text into a different tree",
                        json!({"file_index": idx(case.file, c.len()), "this_process": mine, "fresh_process": other}),
                    );
                }
            }
        }
        let mut o = Outcome::pass(applied >= 2);
        o.classes = kinds;
        o.classes.sort();
        o.classes.dedup();
        o
    }
}
