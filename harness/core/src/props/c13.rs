//! C13 — every supported Python target runs the program identically.
//! C14 — emitted code objects are structurally valid for the interpreter.
use crate::ergx;
use crate::gen::{tape_strategy, GenCfg};
use crate::progrun::{self, Compiled};
use proptest::prelude::*;
use serde::{Deserialize, Serialize};
use serde_json::{json, Value};
use vkit::engine::{Mode, Outcome, Policy, Property, Tier};
use vkit::util::idx;

pub const TARGETS: &[&str] = &["3.7", "3.8", "3.9", "3.10", "3.11"];

#[derive(Serialize, Deserialize, Clone, Debug)]
pub enum Case {
    Gen { tape: Vec<u32> },
    /// explicit source (pinned replays)
    Explicit {
        src: String,
        /// report failures under the signature generated cases would have
        #[serde(default)]
        gen_sig: bool,
    },
    /// corpus file selector (C14)
    Corpus { file: u32 },
    /// corpus file by position (C14 enumerates every file)
    CorpusAt { index: usize },
    /// `erg --py-command P run probe.er` must run under P (C13)
    PyCommand { ver: String },
}

fn cfg() -> GenCfg {
    GenCfg { max_stmts: 12, ..GenCfg::default() }
}

fn source(case: &Case) -> Option<(String, Vec<String>)> {
    match case {
        Case::Gen { tape } => {
            let b = progrun::build(tape, cfg());
            Some((b.erg, b.features))
        }
        Case::Explicit { src, .. } => Some((src.clone(), vec!["explicit-source".into()])),
        Case::Corpus { file } => {
            let c = super::c08::corpus();
            if c.is_empty() {
                return None;
            }
            let s = c[idx(*file, c.len())].clone();
            // linked modules bring code objects whose lines belong to other files
            if s.contains("import ") || s.contains("import\"") {
                return None;
            }
            Some((s, vec!["corpus".into()]))
        }
        Case::CorpusAt { index } => {
            let c = super::c08::corpus();
            let s = c.get(*index)?.clone();
            if s.contains("import ") || s.contains("import\"") {
                return None;
            }
            Some((s, vec!["corpus".into()]))
        }
        Case::PyCommand { .. } => None,
    }
}

fn warm_all() {
    for v in TARGETS {
        ergx::warm_python(v);
    }
}

const WITH_TEMPLATES: &[&str] = &[
    "with! open!(\"PROBE\"), f =>\n    print! len(f.read!()) > 0\nprint! \"after\"\n",
    "n = with! open!(\"PROBE\"), f =>\n    len(f.readlines!())\nprint! n > 0\n",
    "with! open!(\"PROBE\"), f =>\n    z = 0\n    print! 1 // z\nprint! \"after\"\n",
    "for! 0..<2, i =>\n    with! open!(\"PROBE\"), f =>\n        print! i, len(f.read!()) > 0\nprint! \"after\"\n",
];

pub struct C13;

impl Property for C13 {
    type Case = Case;
    fn id(&self) -> &'static str {
        "C13"
    }
    fn rule(&self) -> String {
        "programs of the fragment grammar (calls with keyword/default arguments, closures over outer variables, every binary operator, loops, branches, interpolation, pattern definitions) compiled in-process for each target 3.7, 3.8, 3.9, 3.10, 3.11 (magic 3394/3413/3425/3439/3495) and run by the installed interpreter of that version: each .pyc must unmarshal and run with the same stdout bytes, exception type and exit status as the 3.11 build (differences are re-run in fresh interpreter processes); plus, for every installed interpreter P, `erg --py-command P run probe.er` must execute under P. Non-trivial = accepted, prints, and uses >= 2 version-sensitive constructs (call, loop, comparison, closure, interpolation, with keyword argument); distinct by source text".into()
    }
    fn assumptions(&self) -> Vec<String> {
        vec!["one installed patch release stands for each minor version".into()]
    }
    fn strategy(&self, tier: Tier) -> BoxedStrategy<Case> {
        tape_strategy(tier.pick(140, 280)).prop_map(|tape| Case::Gen { tape }).boxed()
    }
    fn cases(&self, tier: Tier) -> usize {
        tier.pick(800, 20_000)
    }
    fn fixed_cases(&self, _tier: Tier) -> Vec<Case> {
        let mut v: Vec<Case> = TARGETS.iter().map(|v| Case::PyCommand { ver: v.to_string() }).collect();
        // with! is emitted differently for every target; the grammar has no context managers,
        // so a few templates over the file object stand in (normal exit, value use, exception)
        let probe = vkit::util::repo_root().join("examples/helloworld.er").display().to_string();
        for body in WITH_TEMPLATES {
            v.push(Case::Explicit { src: body.replace("PROBE", &probe), gen_sig: false });
        }
        v
    }
    fn mode(&self) -> Mode {
        Mode::Workers
    }
    fn panic_policy(&self) -> Policy {
        Policy::Discard
    }
    fn abort_policy(&self) -> Policy {
        Policy::Discard
    }
    fn setup(&self) {
        warm_all();
    }
    fn render(&self, case: &Case) -> Value {
        match source(case) {
            Some((s, _)) => json!(s),
            None => serde_json::to_value(case).unwrap(),
        }
    }
    fn shrink_budget(&self) -> usize {
        80
    }
    fn run(&self, case: &Case) -> Outcome {
        if let Case::PyCommand { ver } = case {
            return py_command_case(ver);
        }
        let Some((src, features)) = source(case) else { return Outcome::discard("no-source") };
        let mut base: Option<vkit::pyexec::RunResult> = None;
        let mut base_pyc = vec![];
        // 3.11 first (the default target), then the others
        let order = ["3.11", "3.10", "3.9", "3.8", "3.7"];
        for ver in order {
            let c = match progrun::compile(&src, ver, 1) {
                Compiled::Ok(c) => c,
                Compiled::Rejected(d) => {
                    if ver == "3.11" {
                        return progrun::rejected_outcome(&d);
                    }
                    return Outcome::discard("checker-verdict-differs-between-compilations");
                }
            };
            let r = ergx::run_pyc(&c.pyc, ver, 30.0);
            if r.timeout {
                return Outcome::inconclusive("run-timeout");
            }
            if ver == "3.11" {
                base = Some(r);
                base_pyc = c.pyc;
                continue;
            }
            let b = base.as_ref().unwrap();
            let differs = r.died || !progrun::same_obs(b, &r);
            if differs {
                // fresh processes, each pyc under its own interpreter
                let dir = vkit::util::work_dir();
                let (p0, p1) = (dir.join("c13_311.pyc"), dir.join("c13_other.pyc"));
                let _ = std::fs::write(&p0, &base_pyc);
                let _ = std::fs::write(&p1, &c.pyc);
                let a = vkit::pyexec::fresh_run_pyc("3.11", &p0, None);
                let o = vkit::pyexec::fresh_run_pyc(ver, &p1, None);
                let (xa, xo) = (vkit::pyexec::exc_type_from_stderr(&a.1), vkit::pyexec::exc_type_from_stderr(&o.1));
                if a.0 == o.0 && a.2 == o.2 && xa == xo {
                    return Outcome::inconclusive("difference-not-confirmed-in-fresh-processes");
                }
                let kind = if r.died || o.2 < 0 || o.2 >= 128 {
                    format!("the {ver} build kills its interpreter (exit {})", o.2)
                } else {
                    progrun::diff_kind(&r, b).replace("compiled program", &format!("the {ver} build")).replace("the source means", "the 3.11 build has")
                };
                let sig = if matches!(case, Case::Explicit { gen_sig: false, .. }) { format!("pinned: {kind}") } else { kind };
                return Outcome::fail(
                    sig,
                    json!({"erg": src, "target": ver, "run_3.11": b.summary(), "run_target": r.summary(), "fresh_target_stderr": vkit::util::truncate(&String::from_utf8_lossy(&o.1), 400)}),
                );
            }
        }
        let sensitive = ["call:function", "call:lambda", "call:keyword-arg", "stmt:for-range", "stmt:for-list", "stmt:while", "op:compare", "expr:interpolation", "stmt:lambda", "op:in", "stmt:if", "expr:if"];
        let n = features.iter().filter(|f| sensitive.contains(&f.as_str())).count();
        let printed = base.as_ref().map(|b| !b.stdout.is_empty()).unwrap_or(false);
        Outcome::pass(printed && n >= 2).classes(features)
    }
}

fn py_command_case(ver: &str) -> Outcome {
    // the CLI clause: the interpreter named by --py-command must execute the bytecode
    let dir = vkit::util::work_dir();
    let probe = dir.join(format!("probe_{}.er", ver.replace('.', "_")));
    let src = "sys = pyimport \"sys\"\nprint! sys.version_info.major, sys.version_info.minor\n";
    if std::fs::write(&probe, src).is_err() {
        return Outcome::inconclusive("cannot-write-probe");
    }
    let exe = std::env::current_exe().ok().and_then(|p| p.parent().map(|d| d.join("erg-cli")));
    let Some(exe) = exe else { return Outcome::inconclusive("no-erg-cli") };
    let py = vkit::pyexec::interpreter(ver);
    let out = std::process::Command::new(&exe).arg("--py-command").arg(&py).arg("run").arg(&probe).current_dir(&dir).output();
    let Ok(out) = out else { return Outcome::inconclusive("cannot-run-erg-cli") };
    let stdout = String::from_utf8_lossy(&out.stdout).trim().to_string();
    let want = ver.replace('.', " ");
    if stdout != want {
        return Outcome::fail(
            format!("erg --py-command <python{ver}> run does not execute under Python {ver}"),
            json!({"stdout": stdout, "expected": want, "status": out.status.code(), "stderr": vkit::util::truncate(&String::from_utf8_lossy(&out.stderr), 500)}),
        );
    }
    Outcome::pass(true).class(format!("py-command:{ver}"))
}

pub struct C14;

impl Property for C14 {
    type Case = Case;
    fn id(&self) -> &'static str {
        "C14"
    }
    fn rule(&self) -> String {
        "every code object (recursively through co_consts) of fragment-grammar programs and of the repository's own .er files that compile, for each target 3.7-3.11. Oracle (py/validate_code.py, run by the target interpreter): worklist abstract interpretation with that interpreter's dis.stack_effect from depth 0 (exception-table handlers on 3.11): depth never negative and max depth <= co_stacksize; every jump target is an instruction start inside co_code; every const/name/local/free index in range; no unknown opcode or dangling EXTENDED_ARG; every instruction that CPython's own compiler never leaves line-less maps to a line in [1, #source lines]. The validator reports nothing on 200 stdlib modules compiled by each CPython. Non-trivial = code object set with >= 1 jump and >= 1 call; distinct by (source, target)".into()
    }
    fn assumptions(&self) -> Vec<String> {
        vec!["stack analysis is skipped (and counted) for generator code objects and, before 3.9, for code containing try/finally/with set-up instructions".into()]
    }
    fn strategy(&self, tier: Tier) -> BoxedStrategy<Case> {
        prop_oneof![
            5 => tape_strategy(tier.pick(140, 280)).prop_map(|tape| Case::Gen { tape }),
            1 => any::<u32>().prop_map(|file| Case::Corpus { file }),
        ]
        .boxed()
    }
    fn cases(&self, tier: Tier) -> usize {
        tier.pick(800, 20_000)
    }
    fn mode(&self) -> Mode {
        Mode::Workers
    }
    fn panic_policy(&self) -> Policy {
        Policy::Discard
    }
    fn abort_policy(&self) -> Policy {
        Policy::Discard
    }
    fn setup(&self) {}
    fn fixed_cases(&self, _tier: Tier) -> Vec<Case> {
        (0..super::c08::corpus().len()).map(|index| Case::CorpusAt { index }).collect()
    }
    fn render(&self, case: &Case) -> Value {
        match source(case) {
            Some((s, _)) => json!(vkit::util::truncate(&s, 3000)),
            None => serde_json::to_value(case).unwrap(),
        }
    }
    fn shrink_budget(&self) -> usize {
        80
    }
    fn run(&self, case: &Case) -> Outcome {
        let Some((src, features)) = source(case) else { return Outcome::discard("no-source") };
        let nlines = src.lines().count().max(1);
        let mut subs = vec![];
        let mut classes = features.clone();
        let (mut jumps, mut calls, mut objs) = (0u64, 0u64, 0u64);
        let mut line_vers: Vec<String> = vec![];
        let mut line_detail: Vec<Value> = vec![];
        let mut other: Option<(String, Value)> = None;
        for ver in TARGETS {
            let c = match progrun::compile(&src, ver, 1) {
                Compiled::Ok(c) => c,
                Compiled::Rejected(d) => {
                    if *ver == "3.7" {
                        return progrun::rejected_outcome(&d);
                    }
                    return Outcome::discard("checker-verdict-differs-between-compilations");
                }
            };
            let p = vkit::util::work_dir().join(format!("c14_{ver}.pyc"));
            if std::fs::write(&p, &c.pyc).is_err() {
                return Outcome::inconclusive("cannot-write-pyc");
            }
            let v = vkit::pyexec::with(ver, |w| w.call("validate_code.py", "validate", json!({"pyc": p, "source_lines": nlines}), false));
            let problems: Vec<Value> = v["problems"].as_array().cloned().unwrap_or_default();
            jumps += v["jumps"].as_u64().unwrap_or(0);
            calls += v["calls"].as_u64().unwrap_or(0);
            objs += v["code_objects"].as_u64().unwrap_or(0);
            let real: Vec<&Value> = problems.iter().filter(|p| !p["kind"].as_str().unwrap_or("").starts_with("note:")).collect();
            if problems.len() != real.len() {
                classes.push(format!("stack-not-analysed:{ver}"));
            }
            for p in &real {
                let kind = p["kind"].as_str().unwrap_or("?").to_string();
                if kind == "instruction-without-valid-line" {
                    if !line_vers.contains(&ver.to_string()) {
                        line_vers.push(ver.to_string());
                        line_detail.push(json!({"target": ver, "problem": p}));
                    }
                } else if other.is_none() {
                    let op = p["op"].as_str().unwrap_or("").to_string();
                    let what = if op.is_empty() { p["where"].as_str().unwrap_or("").to_string() } else { op };
                    other = Some((format!("{kind} ({what}) on target {ver}"), json!({"target": ver, "problems": real})));
                }
            }
            subs.push(vkit::util::hash_str(&format!("{ver}:{src}")));
        }
        let pin = |s: String| if matches!(case, Case::Explicit { gen_sig: false, .. }) { format!("pinned: {s}") } else { s };
        if let Some((sig, detail)) = other {
            return Outcome::fail(pin(sig), json!({"erg": vkit::util::truncate(&src, 2500), "detail": detail}));
        }
        if !line_vers.is_empty() {
            // one root cause whatever instruction is hit first: keyed by the set of targets
            // 3.10 and 3.11 share one root cause (pre-3.10 lnotab written for every target): which of
            // the two shows an uncovered instruction depends on the program
            // beyond the 3.10/3.11 family a line-table problem is specific to its program
            let set = if line_vers.iter().all(|v| v == "3.10" || v == "3.11") { "3.10/3.11".to_string() } else { format!("{} [program {:08x}]", line_vers.join(","), vkit::util::hash_str(&src) as u32) };
            return Outcome::fail(pin(format!("instruction-without-valid-line on target(s) {set}")), json!({"erg": vkit::util::truncate(&src, 2500), "detail": line_detail}));
        }
        let mut o = Outcome::pass(jumps >= 1 && calls >= 1);
        o.evals = objs.max(1);
        if jumps >= 1 && calls >= 1 {
            o.sub_nontrivial = subs;
        }
        o.classes = classes;
        o
    }
}
