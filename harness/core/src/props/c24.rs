//! C24 — diagnostics point inside the source at the offending construct.
use crate::ergx;
use crate::gen::{raw, tape_strategy, Gen, GenCfg};
use erg_common::traits::Stream;
use erg_compiler::Compiler;
use proptest::prelude::*;
use serde::{Deserialize, Serialize};
use serde_json::json;
use vkit::engine::{Mode, Outcome, Policy, Property, Tier};
use vkit::util::idx;

pub struct C24;

#[derive(Serialize, Deserialize, Clone, Debug)]
pub struct Case {
    pub tape: Vec<u32>,
    pub site: u32,
    /// 0 = undefined name, 1 = type error (Str - Int)
    pub kind: u8,
    #[serde(default)]
    pub explicit: Option<String>,
}

const NAME: &str = "zz_undefined_name_7";

fn cfg() -> GenCfg {
    GenCfg { wild_strings: true, exits: false, ..GenCfg::default() }
}

fn source(case: &Case) -> Option<(String, usize)> {
    if let Some(s) = &case.explicit {
        return Some((s.clone(), 1));
    }
    let mut g = Gen::new(&case.tape, cfg());
    let mut prog = g.program();
    let n = prog.count_exprs();
    if n == 0 {
        return None;
    }
    let text = if case.kind % 2 == 0 { NAME.to_string() } else { format!("(\"a\" - {NAME})") };
    let depth = prog.replace_expr(idx(case.site, n), raw(&text))?;
    Some((prog.to_erg(), depth))
}

impl Property for C24 {
    type Case = Case;
    fn id(&self) -> &'static str {
        "C24"
    }
    fn rule(&self) -> String {
        "fragment programs with wild string contents (escapes, quotes, tabs-as-escapes, NUL, BMP and astral characters, braces; `;`-joined statements) in which one expression position, chosen uniformly, is replaced by an undefined name (alone or as operand of an ill-typed operator). Oracle for every diagnostic of the full check: 1 <= ln_begin <= ln_end <= #lines and col_begin <= col_end <= length of the line in characters; the undefined-name diagnostic exists and the text its span selects on its line equals the name; rendering every diagnostic (Display, the CLI's path) does not panic. Non-trivial = the offending token is preceded on its line by an escape sequence or a non-ASCII character; distinct by source text".into()
    }
    fn strategy(&self, tier: Tier) -> BoxedStrategy<Case> {
        (tape_strategy(tier.pick(140, 280)), any::<u32>(), 0u8..2).prop_map(|(tape, site, kind)| Case { tape, site, kind, explicit: None }).boxed()
    }
    fn cases(&self, tier: Tier) -> usize {
        tier.pick(4_000, 80_000)
    }
    fn mode(&self) -> Mode {
        Mode::Workers
    }
    fn panic_policy(&self) -> Policy {
        Policy::Discard // checker crashes are C07's subject; rendering panics are caught below
    }
    fn abort_policy(&self) -> Policy {
        Policy::Discard
    }
    fn render(&self, case: &Case) -> serde_json::Value {
        json!(source(case).map(|x| x.0))
    }
    fn shrink_budget(&self) -> usize {
        150
    }
    fn run(&self, case: &Case) -> Outcome {
        let Some((src, _depth)) = source(case) else { return Outcome::discard("no-expression") };
        let lines: Vec<Vec<char>> = src.lines().map(|l| l.chars().collect()).collect();
        let cfg = ergx::cfg_for(&src, "3.11", 1);
        let mut compiler = Compiler::new(cfg);
        let errs = match compiler.compile(src.clone(), "exec") {
            Ok(_) => return Outcome::fail("program with an undefined name accepted", json!({"source": src})),
            Err(ea) => ea.errors,
        };
        let mut found_name = false;
        let mut nontrivial = false;
        for e in errs.iter() {
            let core = &e.core;
            let loc = core.loc;
            let kind = format!("{:?}", core.kind);
            // rendering must not panic
            let e2 = e.clone();
            if let Err(info) = vkit::panics::catch(move || format!("{e2}")) {
                return Outcome::fail(
                    format!("rendering a {kind} diagnostic panics: {}", vkit::panics::norm_msg(&info.msg)),
                    json!({"source": src, "at": info.loc}),
                );
            }
            let (Some(lb), Some(le)) = (loc.ln_begin(), loc.ln_end()) else { continue };
            if lb < 1 || le < lb || le as usize > lines.len() {
                return Outcome::fail(format!("{kind} diagnostic points at a line outside the source"), json!({"source": src, "ln_begin": lb, "ln_end": le, "lines": lines.len()}));
            }
            if let (Some(cb), Some(ce)) = (loc.col_begin(), loc.col_end()) {
                let first = &lines[lb as usize - 1];
                let last = &lines[le as usize - 1];
                if cb as usize > first.len() || ce as usize > last.len() || (lb == le && cb > ce) {
                    return Outcome::fail(
                        format!("{kind} diagnostic has columns outside its line"),
                        json!({"source": src, "line": lb, "col_begin": cb, "col_end": ce, "line_length": first.len(), "line_text": first.iter().collect::<String>()}),
                    );
                }
                if kind == "NameError" && core.main_message.contains(NAME) {
                    found_name = true;
                    let sel: String = if lb == le { first[cb as usize..ce as usize].iter().collect() } else { String::new() };
                    if sel != NAME {
                        return Outcome::fail(
                            "the undefined-name diagnostic does not highlight the name",
                            json!({"source": src, "line": lb, "col_begin": cb, "col_end": ce, "highlighted": sel, "line_text": first.iter().collect::<String>()}),
                        );
                    }
                    let before: String = first[..cb as usize].iter().collect();
                    nontrivial = before.contains('\\') || !before.is_ascii();
                }
            }
        }
        if !found_name {
            // the name error may be shadowed by an earlier error kind; not a verdict on locations
            return Outcome::pass(false).class("name-error-not-reported-separately");
        }
        Outcome::pass(nontrivial).class(if case.kind % 2 == 0 { "inject:undefined-name" } else { "inject:type-error-with-undefined-name" })
    }
}
