//! C32 — refinement predicate combinators denote set operations.
use erg_common::Str;
use erg_compiler::ty::predicate::Predicate;
use erg_compiler::ty::value::ValueObj;
use erg_compiler::ty::TyParam;
use proptest::prelude::*;
use serde::{Deserialize, Serialize};
use serde_json::json;
use vkit::engine::{Outcome, Property, Tier};

pub struct C32;

/// the construction recipe (what the caller asked for)
#[derive(Serialize, Deserialize, Clone, Debug)]
pub enum Recipe {
    Eq(i8),
    Ne(i8),
    Ge(i8),
    Le(i8),
    Gt(i8),
    Lt(i8),
    True,
    False,
    And(Box<Recipe>, Box<Recipe>),
    Or(Box<Recipe>, Box<Recipe>),
    Not(Box<Recipe>),
}

const LO: i64 = -11;
const HI: i64 = 11;
type Bits = u32; // one bit per integer of the window [-11, 11]

fn window(f: impl Fn(i64) -> bool) -> Bits {
    let mut b = 0;
    for (k, i) in (LO..=HI).enumerate() {
        if f(i) {
            b |= 1 << k;
        }
    }
    b
}
const FULL: Bits = (1 << 23) - 1;

impl Recipe {
    /// the denotation required by the statement, computed from the recipe
    fn denote(&self) -> Bits {
        match self {
            Recipe::Eq(c) => window(|i| i == *c as i64),
            Recipe::Ne(c) => window(|i| i != *c as i64),
            Recipe::Ge(c) => window(|i| i >= *c as i64),
            Recipe::Le(c) => window(|i| i <= *c as i64),
            Recipe::Gt(c) => window(|i| i > *c as i64),
            Recipe::Lt(c) => window(|i| i < *c as i64),
            Recipe::True => FULL,
            Recipe::False => 0,
            Recipe::And(a, b) => a.denote() & b.denote(),
            Recipe::Or(a, b) => a.denote() | b.denote(),
            Recipe::Not(a) => FULL & !a.denote(),
        }
    }
    fn build(&self) -> Predicate {
        let v: Str = "I".into();
        let c = |c: &i8| TyParam::value(*c as i32);
        match self {
            Recipe::Eq(k) => Predicate::eq(v, c(k)),
            Recipe::Ne(k) => Predicate::ne(v, c(k)),
            Recipe::Ge(k) => Predicate::ge(v, c(k)),
            Recipe::Le(k) => Predicate::le(v, c(k)),
            Recipe::Gt(k) => Predicate::gt(v, c(k)),
            Recipe::Lt(k) => Predicate::lt(v, c(k)),
            Recipe::True => Predicate::TRUE,
            Recipe::False => Predicate::FALSE,
            Recipe::And(a, b) => Predicate::and(a.build(), b.build()),
            Recipe::Or(a, b) => Predicate::or(a.build(), b.build()),
            Recipe::Not(a) => a.build().invert(),
        }
    }
    fn size(&self) -> usize {
        match self {
            Recipe::And(a, b) | Recipe::Or(a, b) => 1 + a.size() + b.size(),
            Recipe::Not(a) => 1 + a.size(),
            _ => 1,
        }
    }
    fn show(&self) -> String {
        match self {
            Recipe::Eq(c) => format!("I == {c}"),
            Recipe::Ne(c) => format!("I != {c}"),
            Recipe::Ge(c) => format!("I >= {c}"),
            Recipe::Le(c) => format!("I <= {c}"),
            Recipe::Gt(c) => format!("I > {c}"),
            Recipe::Lt(c) => format!("I < {c}"),
            Recipe::True => "True".into(),
            Recipe::False => "False".into(),
            Recipe::And(a, b) => format!("and({}, {})", a.show(), b.show()),
            Recipe::Or(a, b) => format!("or({}, {})", a.show(), b.show()),
            Recipe::Not(a) => format!("invert({})", a.show()),
        }
    }
    /// naive node count the constructors would give without any simplification
    fn naive_nodes(&self) -> usize {
        match self {
            Recipe::Gt(_) | Recipe::Lt(_) => 3,
            Recipe::And(a, b) | Recipe::Or(a, b) => 1 + a.naive_nodes() + b.naive_nodes(),
            Recipe::Not(a) => 1 + a.naive_nodes(),
            _ => 1,
        }
    }
}

fn int_of(tp: &TyParam) -> Option<i64> {
    match tp {
        TyParam::Value(ValueObj::Int(i)) => Some(*i as i64),
        TyParam::Value(ValueObj::Nat(n)) => Some(*n as i64),
        _ => None,
    }
}

/// my evaluator of erg's resulting Predicate value
fn eval(p: &Predicate, i: i64) -> Option<bool> {
    Some(match p {
        Predicate::Value(ValueObj::Bool(b)) => *b,
        Predicate::Equal { rhs, .. } => i == int_of(rhs)?,
        Predicate::NotEqual { rhs, .. } => i != int_of(rhs)?,
        Predicate::GreaterEqual { rhs, .. } => i >= int_of(rhs)?,
        Predicate::LessEqual { rhs, .. } => i <= int_of(rhs)?,
        Predicate::And(a, b) => eval(a, i)? && eval(b, i)?,
        Predicate::Or(ps) => {
            let mut r = false;
            for q in ps.iter() {
                r |= eval(q, i)?;
            }
            r
        }
        Predicate::Not(a) => !eval(a, i)?,
        _ => return None,
    })
}

fn nodes(p: &Predicate) -> usize {
    match p {
        Predicate::And(a, b) => 1 + nodes(a) + nodes(b),
        Predicate::Or(ps) => 1 + ps.iter().map(nodes).sum::<usize>(),
        Predicate::Not(a) => 1 + nodes(a),
        _ => 1,
    }
}

fn recipe(depth: u32) -> BoxedStrategy<Recipe> {
    let c = -8i8..=8;
    let atom = prop_oneof![
        4 => c.clone().prop_map(Recipe::Eq),
        3 => c.clone().prop_map(Recipe::Ne),
        4 => c.clone().prop_map(Recipe::Ge),
        4 => c.clone().prop_map(Recipe::Le),
        3 => c.clone().prop_map(Recipe::Gt),
        3 => c.prop_map(Recipe::Lt),
        1 => Just(Recipe::True),
        1 => Just(Recipe::False),
    ];
    atom.prop_recursive(depth, 24, 2, |inner| {
        prop_oneof![
            3 => (inner.clone(), inner.clone()).prop_map(|(a, b)| Recipe::And(Box::new(a), Box::new(b))),
            3 => (inner.clone(), inner.clone()).prop_map(|(a, b)| Recipe::Or(Box::new(a), Box::new(b))),
            // the same operand twice / shared sub-terms hit the simplification arms
            1 => inner.clone().prop_map(|a| Recipe::And(Box::new(a.clone()), Box::new(a))),
            1 => inner.clone().prop_map(|a| Recipe::Or(Box::new(a.clone()), Box::new(a))),
            2 => inner.prop_map(|a| Recipe::Not(Box::new(a))),
        ]
    })
    .boxed()
}

impl Property for C32 {
    type Case = Recipe;
    fn id(&self) -> &'static str {
        "C32"
    }
    fn rule(&self) -> String {
        "predicate trees of depth <= 4 over one Int variable, built only through Predicate::{eq,ne,ge,le,gt,lt,and,or,invert} with constants in [-8,8]; the resulting Predicate value is evaluated on every integer in [-11,11] (exact for order/equality atoms) and compared with the set computed from the construction recipe. Non-trivial = the constructors simplified (result has fewer nodes than the naive tree) and the recipe has >= 2 combinators; distinct by recipe".into()
    }
    fn strategy(&self, _tier: Tier) -> BoxedStrategy<Recipe> {
        recipe(4)
    }
    fn cases(&self, tier: Tier) -> usize {
        tier.pick(200_000, 4_000_000)
    }
    fn render(&self, case: &Recipe) -> serde_json::Value {
        json!({"recipe": case.show(), "result": case.build().to_string()})
    }
    fn run(&self, case: &Recipe) -> Outcome {
        let p = case.build();
        let want = case.denote();
        let mut got: Bits = 0;
        for (k, i) in (LO..=HI).enumerate() {
            match eval(&p, i) {
                Some(true) => got |= 1 << k,
                Some(false) => {}
                None => {
                    return Outcome::fail(
                        "combinator produced a non-integer predicate",
                        json!({"recipe": case.show(), "result": p.to_string()}),
                    )
                }
            }
        }
        if got != want {
            let diff: Vec<i64> = (LO..=HI).enumerate().filter(|(k, _)| (got ^ want) >> k & 1 == 1).map(|(_, i)| i).collect();
            let top = match case {
                Recipe::And(..) => "and",
                Recipe::Or(..) => "or",
                Recipe::Not(..) => "invert",
                _ => "atom",
            };
            return Outcome::fail(
                format!("denotation differs at top-level {top}"),
                json!({"recipe": case.show(), "result": p.to_string(), "integers_where_wrong": diff}),
            );
        }
        let simplified = nodes(&p) < case.naive_nodes();
        let mut o = Outcome::pass(simplified && case.size() >= 3);
        if simplified {
            o.classes.push("simplified".into());
        }
        o
    }
}
