//! C33 — an accepted match always has an arm that matches.
use crate::ergx;
use proptest::prelude::*;
use serde::{Deserialize, Serialize};
use serde_json::json;
use vkit::engine::{Mode, Outcome, Policy, Property, Tier};

pub struct C33;

#[derive(Serialize, Deserialize, Clone, Debug, PartialEq)]
pub enum Val {
    I(i64),
    S(String),
    B(bool),
}

#[derive(Serialize, Deserialize, Clone, Debug)]
pub enum Scrut {
    Int,
    Nat,
    Str,
    Bool,
    EnumInt(Vec<i64>),
    EnumStr(Vec<String>),
    Interval(i64, i64),
    IntOrStr,
}

#[derive(Serialize, Deserialize, Clone, Debug)]
pub enum Arm {
    Lit(Val),
    TyInt,
    TyNat,
    TyStr,
    TyBool,
    Range(i64, i64),
    /// interval with open ends: lo, hi, lo open, hi open
    RangeOpen(i64, i64, bool, bool),
    Wild,
}

#[derive(Serialize, Deserialize, Clone, Debug)]
pub struct Case {
    pub scrut: Scrut,
    pub arms: Vec<Arm>,
}

fn val_erg(v: &Val) -> String {
    match v {
        Val::I(i) => if *i < 0 { format!("({i})") } else { i.to_string() },
        Val::S(s) => format!("\"{s}\""),
        Val::B(b) => if *b { "True".into() } else { "False".into() },
    }
}

fn scrut_erg(s: &Scrut) -> String {
    match s {
        Scrut::Int => "Int".into(),
        Scrut::Nat => "Nat".into(),
        Scrut::Str => "Str".into(),
        Scrut::Bool => "Bool".into(),
        Scrut::EnumInt(v) => format!("{{{}}}", v.iter().map(|i| i.to_string()).collect::<Vec<_>>().join(", ")),
        Scrut::EnumStr(v) => format!("{{{}}}", v.iter().map(|s| format!("\"{s}\"")).collect::<Vec<_>>().join(", ")),
        Scrut::Interval(a, b) => format!("{a}..{b}"),
        Scrut::IntOrStr => "Int or Str".into(),
    }
}

fn domain(s: &Scrut) -> Vec<Val> {
    match s {
        Scrut::Int => [-3, -1, 0, 1, 2, 3, 7].iter().map(|i| Val::I(*i)).collect(),
        Scrut::Nat => [0, 1, 2, 3, 7].iter().map(|i| Val::I(*i)).collect(),
        Scrut::Str => ["a", "b", "", "zz"].iter().map(|s| Val::S(s.to_string())).collect(),
        Scrut::Bool => vec![Val::B(true), Val::B(false)],
        Scrut::EnumInt(v) => v.iter().map(|i| Val::I(*i)).collect(),
        Scrut::EnumStr(v) => v.iter().map(|s| Val::S(s.clone())).collect(),
        Scrut::Interval(a, b) => (*a..=*b).map(Val::I).collect(),
        Scrut::IntOrStr => vec![Val::I(1), Val::S("a".into()), Val::I(-2), Val::S("".into()), Val::I(0)],
    }
}

fn arm_erg(a: &Arm, k: usize) -> String {
    let pat = match a {
        Arm::Lit(v) => val_erg(v),
        Arm::TyInt => format!("(p{k}: Int)"),
        Arm::TyNat => format!("(p{k}: Nat)"),
        Arm::TyStr => format!("(p{k}: Str)"),
        Arm::TyBool => format!("(p{k}: Bool)"),
        Arm::Range(a, b) => format!("(p{k}: {a}..{b})"),
        Arm::RangeOpen(a, b, lo, hi) => format!("(p{k}: {a}{}..{}{b})", if *lo { "<" } else { "" }, if *hi { "<" } else { "" }),
        Arm::Wild => "_".into(),
    };
    format!("        {pat} -> \"arm{k}\"\n")
}

fn matches(a: &Arm, v: &Val) -> bool {
    match (a, v) {
        (Arm::Wild, _) => true,
        (Arm::Lit(l), v) => l == v,
        (Arm::TyInt, Val::I(_)) => true,
        (Arm::TyNat, Val::I(i)) => *i >= 0,
        (Arm::TyStr, Val::S(_)) => true,
        (Arm::TyBool, Val::B(_)) => true,
        (Arm::Range(a, b), Val::I(i)) => a <= i && i <= b,
        (Arm::RangeOpen(a, b, lo, hi), Val::I(i)) => (if *lo { a < i } else { a <= i }) && (if *hi { i < b } else { i <= b }),
        _ => false,
    }
}

fn source(c: &Case) -> (String, Vec<Val>) {
    let mut s = format!("f(x: {}) =\n    match x:\n", scrut_erg(&c.scrut));
    for (k, a) in c.arms.iter().enumerate() {
        s.push_str(&arm_erg(a, k));
    }
    let dom = domain(&c.scrut);
    for v in &dom {
        s.push_str(&format!("print! f({})\n", val_erg(v)));
    }
    (s, dom)
}

fn arm_strategy(s: &Scrut) -> BoxedStrategy<Arm> {
    let dom = domain(s);
    let lits: Vec<Val> = dom.clone();
    let ints = matches!(s, Scrut::Int | Scrut::Nat | Scrut::EnumInt(_) | Scrut::Interval(..) | Scrut::IntOrStr);
    let strs = matches!(s, Scrut::Str | Scrut::EnumStr(_) | Scrut::IntOrStr);
    let mut alts: Vec<(u32, BoxedStrategy<Arm>)> = vec![(6, proptest::sample::select(lits).prop_map(Arm::Lit).boxed()), (1, Just(Arm::Wild).boxed())];
    if ints {
        alts.push((2, Just(Arm::TyInt).boxed()));
        alts.push((2, Just(Arm::TyNat).boxed()));
        alts.push((3, (-3i64..6, 0i64..4).prop_map(|(a, w)| Arm::Range(a, a + w)).boxed()));
        alts.push((2, (0i64..6, 1i64..5, any::<bool>(), any::<bool>()).prop_map(|(a, w, lo, hi)| Arm::RangeOpen(a, a + w, lo, hi)).boxed()));
    }
    if strs {
        alts.push((2, Just(Arm::TyStr).boxed()));
    }
    if matches!(s, Scrut::Bool) {
        alts.push((1, Just(Arm::TyBool).boxed()));
    }
    proptest::strategy::Union::new_weighted(alts).boxed()
}

impl Property for C33 {
    type Case = Case;
    fn id(&self) -> &'static str {
        "C33"
    }
    fn rule(&self) -> String {
        "`f(x: T) = match x: arms` with T among Int, Nat, Str, Bool, integer and string enums, intervals a..b, `Int or Str`; 1-5 arms in random order drawn from literals of T's sample domain, type-annotated variables (Int, Nat, Str, Bool), interval patterns and the wildcard; every arm returns its index; f is called on every value of T's sample domain (all enum members, every integer of an interval, representative others). Oracle (reference model of first-match semantics): for an accepted program and every sample value the model has a matching arm, the run raises nothing, and the arm the compiled program executed is one whose pattern contains the value. Rejected programs are counted, not judged. Non-trivial = accepted, >= 2 arms, no wildcard or catch-all type arm; distinct by case".into()
    }
    fn strategy(&self, _tier: Tier) -> BoxedStrategy<Case> {
        let scrut = prop_oneof![
            2 => Just(Scrut::Int),
            2 => Just(Scrut::Nat),
            2 => Just(Scrut::Str),
            2 => Just(Scrut::Bool),
            3 => proptest::collection::btree_set(-2i64..6, 1..5).prop_map(|s| Scrut::EnumInt(s.into_iter().collect())),
            2 => proptest::collection::btree_set(proptest::sample::select(vec!["a", "b", "c", "", "zz"]), 1..4).prop_map(|s| Scrut::EnumStr(s.into_iter().map(|x| x.to_string()).collect())),
            3 => (-2i64..4, 0i64..5).prop_map(|(a, w)| Scrut::Interval(a, a + w)),
            2 => Just(Scrut::IntOrStr),
        ];
        scrut
            .prop_flat_map(|s| {
                let arms = proptest::collection::vec(arm_strategy(&s), 1..6);
                (Just(s), arms)
            })
            .prop_map(|(scrut, arms)| Case { scrut, arms })
            .boxed()
    }
    fn cases(&self, tier: Tier) -> usize {
        tier.pick(2_500, 50_000)
    }
    fn mode(&self) -> Mode {
        Mode::Workers
    }
    fn panic_policy(&self) -> Policy {
        Policy::Discard
    }
    fn abort_policy(&self) -> Policy {
        Policy::Discard
    }
    fn setup(&self) {
        ergx::warm_python("3.11");
    }
    fn render(&self, case: &Case) -> serde_json::Value {
        json!(source(case).0)
    }
    fn run(&self, case: &Case) -> Outcome {
        let (src, dom) = source(case);
        let kind = match &case.scrut {
            Scrut::Int => "Int",
            Scrut::Nat => "Nat",
            Scrut::Str => "Str",
            Scrut::Bool => "Bool",
            Scrut::EnumInt(_) => "enum-int",
            Scrut::EnumStr(_) => "enum-str",
            Scrut::Interval(..) => "interval",
            Scrut::IntOrStr => "Int-or-Str",
        };
        let compiled = match ergx::compile(&src, "3.11", 1) {
            Ok(c) => c,
            Err(d) => {
                let k = d.iter().find(|x| !x.is_warning).map(|x| x.kind.clone()).unwrap_or_default();
                return Outcome::discard("rejected").class(format!("rejected:{kind}:{k}"));
            }
        };
        // the model: does every sample value have an arm?
        let uncovered: Vec<&Val> = dom.iter().filter(|v| !case.arms.iter().any(|a| matches(a, v))).collect();
        let r = ergx::run_pyc(&compiled.pyc, "3.11", 30.0);
        if r.timeout || r.died {
            return Outcome::inconclusive("run-timeout-or-died");
        }
        let detail = |extra: serde_json::Value| json!({"source": src, "run": r.summary(), "more": extra});
        if !uncovered.is_empty() {
            return Outcome::fail(
                format!("accepted match over {kind} leaves sample values without a matching arm"),
                detail(json!({"uncovered": uncovered.iter().map(|v| val_erg(v)).collect::<Vec<_>>()})),
            );
        }
        if let Some(e) = &r.exc {
            if e == "ValueError" && (r.msg.contains("Nat can't be negative") || r.msg.contains("invalid literal for int()")) {
                // one root cause: the scrutinee is converted to the class of a literal / Nat pattern
                return Outcome::fail("accepted exhaustive match raises ValueError: the scrutinee is converted to the pattern's class", detail(json!({"scrutinee": kind})));
            }
            return Outcome::fail(format!("accepted exhaustive match over {kind} raises {e}: {}", vkit::panics::norm_msg(&r.msg)), detail(json!(null)));
        }
        let lines: Vec<String> = r.stdout_str().lines().map(|s| s.to_string()).collect();
        if lines.len() != dom.len() {
            return Outcome::fail(format!("match over {kind}: wrong number of results"), detail(json!(null)));
        }
        for (v, l) in dom.iter().zip(lines.iter()) {
            let k: Option<usize> = l.strip_prefix("arm").and_then(|x| x.parse().ok());
            let ok = k.and_then(|k| case.arms.get(k)).map(|a| matches(a, v)).unwrap_or(false);
            if !ok {
                return Outcome::fail(
                    format!("match over {kind} executed an arm whose pattern does not contain the value"),
                    detail(json!({"value": val_erg(v), "executed": l})),
                );
            }
        }
        let catch_all = case.arms.iter().any(|a| matches!(a, Arm::Wild)) || (matches!(case.scrut, Scrut::Int | Scrut::Nat | Scrut::EnumInt(_) | Scrut::Interval(..)) && case.arms.iter().any(|a| matches!(a, Arm::TyInt))) || (matches!(case.scrut, Scrut::Str | Scrut::EnumStr(_)) && case.arms.iter().any(|a| matches!(a, Arm::TyStr)));
        Outcome::pass(case.arms.len() >= 2 && !catch_all).class(format!("accepted:{kind}")).class(if catch_all { "with-catch-all" } else { "no-catch-all" })
    }
}
