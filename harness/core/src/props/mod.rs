use vkit::engine::{drive_main, Args};

pub mod c21;
pub mod c31;

/// same as erg_common::spawn::STACK_SIZE of the product build (8 MB unless large_thread)
pub const STACK_SIZE: usize = 8 * 1024 * 1024;

pub fn dispatch(id: &str, args: &Args) -> i32 {
    match id {
        "C21" => drive_main(&c21::C21, args),
        "C31" => drive_main(&c31::C31, args),
        _ => {
            eprintln!("unknown property {id}");
            2
        }
    }
}
