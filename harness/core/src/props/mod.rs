use vkit::engine::{drive_main, Args};

pub mod c01;
pub mod c02;
pub mod c03;
pub mod c04;
pub mod c05;
pub mod c06;
pub mod c07;
pub mod c08;
pub mod c09;
pub mod c10;
pub mod c11;
pub mod c12;
pub mod c13;
pub mod c15;
pub mod c16;
pub mod c18;
pub mod c19;
pub mod c20;
pub mod c21;
pub mod c33;
pub mod c34;
pub mod dbg;
pub mod c22;
pub mod c23;
pub mod c24;
pub mod c25;
pub mod c27;
pub mod c28;
pub mod c31;
pub mod c32;

/// same as erg_common::spawn::STACK_SIZE of the product build (8 MB unless large_thread)
pub const STACK_SIZE: usize = 8 * 1024 * 1024;

pub fn dispatch(id: &str, args: &Args) -> i32 {
    match id {
        "C01" => drive_main(&c01::C01, args),
        "C02" => drive_main(&c02::C02, args),
        "C17" => drive_main(&c02::C17, args),
        "C03" => drive_main(&c03::C03, args),
        "C04" => drive_main(&c04::C04, args),
        "C05" => drive_main(&c05::C05, args),
        "C06" => drive_main(&c06::C06, args),
        "C07" => drive_main(&c07::C07, args),
        "C08" => drive_main(&c08::C08, args),
        "C09" => drive_main(&c09::C09, args),
        "C10" => drive_main(&c10::C10, args),
        "C11" => drive_main(&c11::C11, args),
        "C12" => drive_main(&c12::C12, args),
        "C13" => drive_main(&c13::C13, args),
        "C14" => drive_main(&c13::C14, args),
        "C15" => drive_main(&c15::C15, args),
        "C16" => drive_main(&c16::C16, args),
        "C18" => drive_main(&c18::C18, args),
        "C19" => drive_main(&c19::C19, args),
        "C20" => drive_main(&c20::C20, args),
        "C21" => drive_main(&c21::C21, args),
        "C22" => drive_main(&c22::C22, args),
        "C23" => drive_main(&c23::C23, args),
        "C24" => drive_main(&c24::C24, args),
        "C25rs" => drive_main(&c25::C25rs, args),
        "C27" => drive_main(&c27::C27, args),
        "C28" => drive_main(&c28::C28, args),
        "C31" => drive_main(&c31::C31, args),
        "C32" => drive_main(&c32::C32, args),
        "C34" => drive_main(&c34::C34, args),
        "C33" => drive_main(&c33::C33, args),
        "dbg" => crate::props::dbg::main(),
        _ => {
            eprintln!("unknown property {id}");
            2
        }
    }
}
