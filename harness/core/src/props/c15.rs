//! C15 — constants and .pyc files round-trip through marshal and the reader.
use crate::ergx;
use crate::gen::{tape_strategy, GenCfg};
use crate::progrun;
use erg_common::python_util::PythonVersion;
use erg_compiler::ty::codeobj::CodeObj;
use erg_compiler::ty::ValueObj;
use proptest::prelude::*;
use serde::{Deserialize, Serialize};
use serde_json::{json, Value};
use vkit::engine::{Mode, Outcome, Policy, Property, Tier};
use vkit::util::idx;

pub struct C15;

#[derive(Serialize, Deserialize, Clone, Debug)]
pub enum V {
    Nat(u64),
    Int(i32),
    /// bit pattern
    Float(u64),
    Str(String),
    Bool(bool),
    None,
    Tuple(Vec<V>),
    /// n copies of one element (long tuples)
    Repeat(Box<V>, u32),
}

#[derive(Serialize, Deserialize, Clone, Debug)]
pub enum Case {
    /// (a) constant -> bytes -> target interpreter
    Const { v: V, target: u8 },
    /// (b) a generated program's .pyc read back by erg's reader
    Reader { tape: Vec<u32>, target: u8 },
    /// (c) a valid .pyc under a mutation: the reader must not crash
    Mutated { tape: Vec<u32>, target: u8, how: u8, at: u32, val: u8 },
}

const TARGETS: &[&str] = &["3.11", "3.10", "3.9", "3.8", "3.7"];

fn to_value(v: &V) -> ValueObj {
    match v {
        V::Nat(n) => ValueObj::Nat(*n),
        V::Int(i) => ValueObj::Int(*i),
        V::Float(b) => ValueObj::from(f64::from_bits(*b)),
        V::Str(s) => ValueObj::Str(erg_common::Str::from(s.clone())),
        V::Bool(b) => ValueObj::Bool(*b),
        V::None => ValueObj::None,
        V::Tuple(vs) => ValueObj::Tuple(vs.iter().map(to_value).collect::<Vec<_>>().into()),
        V::Repeat(x, n) => ValueObj::Tuple(vec![to_value(x); *n as usize].into()),
    }
}

fn expect(v: &V) -> Value {
    match v {
        V::Nat(n) => json!({"t": "int", "v": n.to_string()}),
        V::Int(i) => json!({"t": "int", "v": i.to_string()}),
        V::Float(b) => json!({"t": "float", "v": format!("{:016x}", b)}),
        V::Str(s) => json!({"t": "str", "v": s.as_bytes().iter().map(|b| format!("{b:02x}")).collect::<String>()}),
        V::Bool(b) => json!({"t": "bool", "v": b}),
        V::None => json!({"t": "NoneType"}),
        V::Tuple(vs) => json!({"t": "tuple", "v": vs.iter().map(expect).collect::<Vec<_>>()}),
        V::Repeat(x, n) => json!({"t": "tuple", "v": vec![expect(x); *n as usize]}),
    }
}

fn kind(v: &V) -> &'static str {
    match v {
        V::Nat(n) if *n > i32::MAX as u64 => "nat>i32",
        V::Nat(_) => "nat",
        V::Int(_) => "int",
        V::Float(_) => "float",
        V::Str(s) if s.len() > 255 => "str>255",
        V::Str(s) if !s.is_ascii() => "str-non-ascii",
        V::Str(_) => "str-ascii",
        V::Bool(_) => "bool",
        V::None => "none",
        V::Tuple(_) => "tuple",
        V::Repeat(_, n) if *n > 255 => "tuple>255",
        V::Repeat(..) => "tuple",
    }
}

fn scalar() -> BoxedStrategy<V> {
    prop_oneof![
        3 => prop_oneof![0u64..300, any::<u64>(), (0u32..64).prop_map(|k| 1u64 << k), (1u32..64).prop_map(|k| (1u64 << k) - 1), Just(u64::MAX)].prop_map(V::Nat),
        2 => prop_oneof![any::<i32>(), Just(i32::MIN), Just(-1), Just(i32::MAX)].prop_map(V::Int),
        3 => prop_oneof![any::<u64>(), Just(0u64), Just(1u64 << 63), Just(f64::INFINITY.to_bits()), Just(f64::NEG_INFINITY.to_bits()), Just(f64::NAN.to_bits()), Just(1u64), Just(1.5f64.to_bits())].prop_map(V::Float),
        4 => prop_oneof![
            "[ -~]{0,12}",
            "[a-z]{250,262}",
            "[é日本😀ß\u{0}\"'\\\\]{0,8}",
            proptest::collection::vec(any::<char>(), 0..10).prop_map(|v| v.into_iter().collect::<String>()),
        ].prop_map(V::Str),
        1 => any::<bool>().prop_map(V::Bool),
        1 => Just(V::None),
    ]
    .boxed()
}

fn value() -> BoxedStrategy<V> {
    scalar()
        .prop_recursive(3, 24, 5, |inner| {
            prop_oneof![
                3 => proptest::collection::vec(inner.clone(), 0..6).prop_map(V::Tuple),
                1 => (inner, prop_oneof![Just(255u32), Just(256u32), Just(257u32), 0u32..40, Just(70_000u32)]).prop_map(|(x, n)| V::Repeat(Box::new(x), n)),
            ]
        })
        .boxed()
}

fn size(v: &V) -> usize {
    match v {
        V::Tuple(vs) => 1 + vs.iter().map(size).sum::<usize>(),
        V::Repeat(x, n) => size(x) * *n as usize + 1,
        _ => 1,
    }
}

fn pyc_of(tape: &[u32], target: &str) -> Option<(Vec<u8>, String)> {
    let b = progrun::build(tape, GenCfg { max_stmts: 10, ..GenCfg::default() });
    ergx::compile(&b.erg, target, 1).ok().map(|c| (c.pyc, b.erg))
}

impl Property for C15 {
    type Case = Case;
    fn id(&self) -> &'static str {
        "C15"
    }
    fn rule(&self) -> String {
        "(a) constants by type: naturals of every bit length up to 2**64-1, 32-bit integers, floats by bit pattern (signed zeros, infinities, NaN, subnormals), strings (ASCII, 250-262 bytes, BMP, astral, NUL, quotes, arbitrary scalar values), booleans, None, nested tuples and tuples of 255/256/257/70 000 elements, serialised with ValueObj::into_bytes for a generated target 3.7-3.11 and unmarshalled by that interpreter: equal value (floats bit for bit) and the same type. (b) the .pyc of generated programs per target is read back by CodeObj::from_pyc without error. (c) the same files truncated at a generated offset, with one byte replaced, or with a 4-byte field overwritten: the reader returns Ok or Err and never panics, aborts or hangs. Non-trivial = (a) value outside the small-int / short-ASCII class, (b) every file, (c) a mutation behind the 16-byte header; distinct by case".into()
    }
    fn strategy(&self, tier: Tier) -> BoxedStrategy<Case> {
        let n = tier.pick(120, 240);
        prop_oneof![
            6 => (value(), 0u8..5).prop_map(|(v, target)| Case::Const { v, target }),
            1 => (tape_strategy(n), 0u8..5).prop_map(|(tape, target)| Case::Reader { tape, target }),
            4 => (tape_strategy(n), 0u8..5, 0u8..3, any::<u32>(), any::<u8>()).prop_map(|(tape, target, how, at, val)| Case::Mutated { tape, target, how, at, val }),
        ]
        .boxed()
    }
    fn cases(&self, tier: Tier) -> usize {
        tier.pick(6_000, 150_000)
    }
    fn mode(&self) -> Mode {
        Mode::Workers
    }
    fn panic_policy(&self) -> Policy {
        Policy::Fail
    }
    fn abort_policy(&self) -> Policy {
        Policy::Fail
    }
    fn hang_policy(&self) -> Policy {
        Policy::Fail
    }
    fn render(&self, case: &Case) -> Value {
        match case {
            Case::Const { v, target } => json!({"constant": vkit::util::truncate(&format!("{v:?}"), 300), "target": TARGETS[*target as usize % 5]}),
            Case::Reader { target, .. } => json!({"reader-on-own-output": TARGETS[*target as usize % 5]}),
            Case::Mutated { target, how, at, val, .. } => {
                let h = ["truncate", "byte", "u32-field"][*how as usize % 3];
                json!({"mutated-pyc": TARGETS[*target as usize % 5], "how": h, "at": at, "val": val})
            }
        }
    }
    fn shrink_budget(&self) -> usize {
        200
    }
    fn run(&self, case: &Case) -> Outcome {
        match case {
            Case::Const { v, target } => {
                if size(v) > 200_000 {
                    return Outcome::discard("too-large");
                }
                let ver = TARGETS[*target as usize % 5];
                let pv = PythonVersion::new(3, Some(ergx::minor_of(ver)), Some(0));
                let bytes = to_value(v).into_bytes(pv);
                let hex: String = bytes.iter().map(|b| format!("{b:02x}")).collect();
                let r = vkit::pyexec::with(ver, |w| w.call("marshal_probe.py", "loads", json!({"hex": hex}), false));
                let k = kind(v);
                if let Some(e) = r.get("error") {
                    return Outcome::fail(format!("the target interpreter cannot unmarshal a {k} constant"), json!({"value": format!("{v:?}").chars().take(200).collect::<String>(), "target": ver, "error": e}));
                }
                let want = expect(v);
                if r["value"] != want {
                    let got = r["value"].to_string();
                    return Outcome::fail(
                        format!("a {k} constant unmarshals to a different value"),
                        json!({"value": format!("{v:?}").chars().take(200).collect::<String>(), "target": ver, "got": vkit::util::truncate(&got, 300), "expected": vkit::util::truncate(&want.to_string(), 300)}),
                    );
                }
                let nt = !matches!(v, V::Nat(0..=255) | V::Bool(_) | V::None) && !matches!(v, V::Str(s) if s.is_ascii() && s.len() < 20);
                Outcome::pass(nt).class(format!("const:{k}")).class(format!("target:{ver}"))
            }
            Case::Reader { tape, target } => {
                let ver = TARGETS[*target as usize % 5];
                let Some((pyc, src)) = pyc_of(tape, ver) else { return Outcome::discard("rejected") };
                let p = vkit::util::work_dir().join("c15.pyc");
                if std::fs::write(&p, &pyc).is_err() {
                    return Outcome::inconclusive("cannot-write");
                }
                match CodeObj::from_pyc(&p) {
                    Ok(_) => Outcome::pass(true).class("reader:own-output").class(format!("target:{ver}")),
                    Err(e) => Outcome::fail(format!("the reader rejects a .pyc the compiler wrote for {ver}"), json!({"source": src, "error": format!("{e:?}").chars().take(300).collect::<String>()})),
                }
            }
            Case::Mutated { tape, target, how, at, val } => {
                let ver = TARGETS[*target as usize % 5];
                let Some((mut pyc, _src)) = pyc_of(tape, ver) else { return Outcome::discard("rejected") };
                let n = pyc.len();
                let pos = idx(*at, n);
                let what = match how % 3 {
                    0 => {
                        pyc.truncate(pos);
                        "truncate"
                    }
                    1 => {
                        pyc[pos] = *val;
                        "byte"
                    }
                    _ => {
                        for k in 0..4 {
                            if pos + k < n {
                                pyc[pos + k] = if *val % 2 == 0 { 0xff } else { *val };
                            }
                        }
                        "u32-field"
                    }
                };
                let p = vkit::util::work_dir().join("c15m.pyc");
                if std::fs::write(&p, &pyc).is_err() {
                    return Outcome::inconclusive("cannot-write");
                }
                // a panic is reported below with one signature per panic site
                match vkit::panics::catch(|| CodeObj::from_pyc(&p).map(|_| ())) {
                    Ok(_) => Outcome::pass(pos >= 16).class(format!("mutation:{what}")).class(if pos < 16 { "in-header" } else { "in-body" }),
                    Err(info) if info.origin == "erg" => {
                        let head: String = info.msg.split(|c| c == '(' || c == ':').next().unwrap_or("").chars().take(60).collect();
                        let file = vkit::panics::norm_loc(&info.loc);
                        let file = file.split(':').next().unwrap_or("").to_string();
                        Outcome::fail(
                            format!("the .pyc reader panics on a damaged file: {file} {}", vkit::panics::norm_msg(head.trim())),
                            json!({"mutation": what, "offset": pos, "file_length": n, "target": ver, "panic_at": info.loc, "message": vkit::util::truncate(&info.msg, 200)}),
                        )
                    }
                    Err(info) => {
                        let mut o = Outcome::inconclusive("harness-panic");
                        o.detail = json!({"at": info.loc, "message": info.msg});
                        o
                    }
                }
            }
        }
    }
}
