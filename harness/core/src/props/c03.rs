//! C03 — refinement subtyping is sound for integer predicates.
use crate::ergx;
use proptest::prelude::*;
use serde::{Deserialize, Serialize};
use serde_json::json;
use vkit::engine::{Mode, Outcome, Policy, Property, Tier};

pub struct C03;

#[derive(Serialize, Deserialize, Clone, Copy, Debug, PartialEq)]
pub enum Op {
    Eq,
    Ne,
    Lt,
    Le,
    Gt,
    Ge,
}

#[derive(Serialize, Deserialize, Clone, Debug)]
pub enum Pred {
    /// `I op c`, or `c op' I` when `flipped`
    Cmp(Op, i64, bool),
    And(Box<Pred>, Box<Pred>),
    Or(Box<Pred>, Box<Pred>),
    Not(Box<Pred>),
}

#[derive(Serialize, Deserialize, Clone, Debug)]
pub enum Ty {
    Refine(Pred),
    /// lo, lo open, hi, hi open
    Interval(i64, bool, i64, bool),
}

#[derive(Serialize, Deserialize, Clone, Debug)]
pub struct Case {
    pub p: Ty,
    pub q: Ty,
    /// Some(shifts): q is ignored and derived from p by moving its k-th constant by shifts[k]
    /// in the weakening direction (negative = strengthening)
    pub derive: Option<Vec<i8>>,
}

impl Op {
    fn eval(self, i: i64, c: i64) -> bool {
        match self {
            Op::Eq => i == c,
            Op::Ne => i != c,
            Op::Lt => i < c,
            Op::Le => i <= c,
            Op::Gt => i > c,
            Op::Ge => i >= c,
        }
    }
    fn text(self) -> &'static str {
        match self {
            Op::Eq => "==",
            Op::Ne => "!=",
            Op::Lt => "<",
            Op::Le => "<=",
            Op::Gt => ">",
            Op::Ge => ">=",
        }
    }
    fn mirror(self) -> Op {
        match self {
            Op::Lt => Op::Gt,
            Op::Le => Op::Ge,
            Op::Gt => Op::Lt,
            Op::Ge => Op::Le,
            o => o,
        }
    }
}

impl Pred {
    fn eval(&self, i: i64) -> bool {
        match self {
            Pred::Cmp(op, c, _) => op.eval(i, *c),
            Pred::And(a, b) => a.eval(i) && b.eval(i),
            Pred::Or(a, b) => a.eval(i) || b.eval(i),
            Pred::Not(a) => !a.eval(i),
        }
    }
    fn erg(&self) -> String {
        let sub = |p: &Pred| match p {
            Pred::Cmp(..) | Pred::Not(_) => p.erg(),
            _ => format!("({})", p.erg()),
        };
        match self {
            Pred::Cmp(op, c, false) => format!("I {} {c}", op.text()),
            Pred::Cmp(op, c, true) => format!("{c} {} I", op.mirror().text()),
            Pred::And(a, b) => format!("{} and {}", sub(a), sub(b)),
            Pred::Or(a, b) => format!("{} or {}", sub(a), sub(b)),
            Pred::Not(a) => format!("not ({})", a.erg()),
        }
    }
    fn consts(&self, out: &mut Vec<i64>) {
        match self {
            Pred::Cmp(_, c, _) => out.push(*c),
            Pred::And(a, b) | Pred::Or(a, b) => {
                a.consts(out);
                b.consts(out)
            }
            Pred::Not(a) => a.consts(out),
        }
    }
    fn ops(&self, out: &mut std::collections::BTreeSet<&'static str>) {
        match self {
            Pred::Cmp(op, _, fl) => {
                out.insert(op.text());
                if *fl {
                    out.insert("const-left");
                }
            }
            Pred::And(a, b) => {
                out.insert("and");
                a.ops(out);
                b.ops(out)
            }
            Pred::Or(a, b) => {
                out.insert("or");
                a.ops(out);
                b.ops(out)
            }
            Pred::Not(a) => {
                out.insert("not");
                a.ops(out)
            }
        }
    }
    /// moves the k-th constant in the direction that weakens the predicate (under an even
    /// number of negations) by shifts[k]
    fn shifted(&self, shifts: &[i8], k: &mut usize, neg: bool) -> Pred {
        match self {
            Pred::Cmp(op, c, fl) => {
                let d = shifts.get(*k).copied().unwrap_or(0) as i64;
                *k += 1;
                let d = if neg { -d } else { d };
                let c2 = match op {
                    Op::Ge | Op::Gt => c - d,
                    Op::Le | Op::Lt => c + d,
                    Op::Eq | Op::Ne => *c,
                };
                Pred::Cmp(*op, c2, *fl)
            }
            Pred::And(a, b) => Pred::And(Box::new(a.shifted(shifts, k, neg)), Box::new(b.shifted(shifts, k, neg))),
            Pred::Or(a, b) => Pred::Or(Box::new(a.shifted(shifts, k, neg)), Box::new(b.shifted(shifts, k, neg))),
            Pred::Not(a) => Pred::Not(Box::new(a.shifted(shifts, k, !neg))),
        }
    }
}

impl Ty {
    fn eval(&self, i: i64) -> bool {
        match self {
            Ty::Refine(p) => p.eval(i),
            Ty::Interval(lo, lo_open, hi, hi_open) => (if *lo_open { i > *lo } else { i >= *lo }) && (if *hi_open { i < *hi } else { i <= *hi }),
        }
    }
    fn erg(&self) -> String {
        match self {
            Ty::Refine(p) => format!("{{I: Int | {}}}", p.erg()),
            Ty::Interval(lo, lo_open, hi, hi_open) => format!("{lo}{}..{}{hi}", if *lo_open { "<" } else { "" }, if *hi_open { "<" } else { "" }),
        }
    }
    fn consts(&self, out: &mut Vec<i64>) {
        match self {
            Ty::Refine(p) => p.consts(out),
            Ty::Interval(lo, _, hi, _) => {
                out.push(*lo);
                out.push(*hi)
            }
        }
    }
    fn shape(&self) -> String {
        match self {
            Ty::Refine(p) => {
                let mut s = Default::default();
                p.ops(&mut s);
                s.into_iter().collect::<Vec<_>>().join(" ")
            }
            Ty::Interval(_, a, _, b) => format!("interval{}{}", if *a { " open-lo" } else { "" }, if *b { " open-hi" } else { "" }),
        }
    }
    fn shifted(&self, shifts: &[i8]) -> Ty {
        match self {
            Ty::Refine(p) => Ty::Refine(p.shifted(shifts, &mut 0, false)),
            Ty::Interval(lo, a, hi, b) => Ty::Interval(lo - shifts.first().copied().unwrap_or(0) as i64, *a, hi + shifts.get(1).copied().unwrap_or(0) as i64, *b),
        }
    }
}

fn konst() -> impl Strategy<Value = i64> {
    prop_oneof![8 => -12i64..13, 1 => prop_oneof![Just(-1000i64), Just(255), Just(256), Just(65536), Just(-128)]]
}

fn cmp() -> impl Strategy<Value = Pred> {
    (prop_oneof![Just(Op::Eq), Just(Op::Ne), Just(Op::Lt), Just(Op::Le), Just(Op::Gt), Just(Op::Ge)], konst(), prop::bool::weighted(0.15)).prop_map(|(o, c, f)| Pred::Cmp(o, c, f))
}

fn pred() -> impl Strategy<Value = Pred> {
    cmp().prop_recursive(3, 8, 2, |inner| {
        prop_oneof![
            4 => (inner.clone(), inner.clone()).prop_map(|(a, b)| Pred::And(Box::new(a), Box::new(b))),
            4 => (inner.clone(), inner.clone()).prop_map(|(a, b)| Pred::Or(Box::new(a), Box::new(b))),
            1 => inner.prop_map(|a| Pred::Not(Box::new(a))),
        ]
    })
}

fn ty() -> impl Strategy<Value = Ty> {
    prop_oneof![
        4 => pred().prop_map(Ty::Refine),
        1 => (konst(), any::<bool>(), 0i64..12, any::<bool>()).prop_map(|(lo, a, w, b)| Ty::Interval(lo, a, lo + w, b)),
    ]
}

impl Case {
    fn q(&self) -> Ty {
        match &self.derive {
            Some(s) => self.p.shifted(s),
            None => self.q.clone(),
        }
    }
    fn source(&self) -> String {
        format!("g(x: {}): {} = x\n", self.p.erg(), self.q().erg())
    }
}

impl Property for C03 {
    type Case = Case;
    fn id(&self) -> &'static str {
        "C03"
    }
    fn rule(&self) -> String {
        "pairs (P, Q) of integer refinement types: predicates of depth <= 3 over ==, !=, <, <=, >, >=, and, or, not with constants in -12..12 (plus 255, 256, 65536, -128, -1000; the constant on either side) and interval forms a..b / a<..b / a..<b / a<..<b; Q is drawn independently or derived from P by moving each constant by -2..3 in the weakening direction. `g(x: P): Q = x` is checked; oracle: exact decision of P => Q by evaluating both on every integer from (least constant - 3) to (greatest constant + 3), outside of which every atom is constant. Violation: accepted although some integer satisfies P and not Q. Non-trivial = accepted pair with satisfiable P and non-tautological Q (so the acceptance says something); distinct by source".into()
    }
    fn strategy(&self, _tier: Tier) -> BoxedStrategy<Case> {
        (ty(), ty(), prop::option::weighted(0.6, proptest::collection::vec(-2i8..4, 8))).prop_map(|(p, q, derive)| Case { p, q, derive }).boxed()
    }
    fn cases(&self, tier: Tier) -> usize {
        tier.pick(4_000, 80_000)
    }
    fn mode(&self) -> Mode {
        Mode::Workers
    }
    fn panic_policy(&self) -> Policy {
        Policy::Discard
    }
    fn abort_policy(&self) -> Policy {
        Policy::Discard
    }
    fn render(&self, case: &Case) -> serde_json::Value {
        json!({"source": case.source()})
    }
    fn run(&self, case: &Case) -> Outcome {
        let q = case.q();
        let src = case.source();
        let mut cs = vec![];
        case.p.consts(&mut cs);
        q.consts(&mut cs);
        let lo = cs.iter().min().unwrap() - 3;
        let hi = cs.iter().max().unwrap() + 3;
        // evaluate on the whole span when it is small, otherwise on +-3 around every constant
        // (between two neighbouring constants every atom is constant)
        let points: Vec<i64> = if hi - lo <= 4000 {
            (lo..=hi).collect()
        } else {
            let mut v: Vec<i64> = cs.iter().flat_map(|c| (c - 3)..=(c + 3)).collect();
            v.sort();
            v.dedup();
            v
        };
        let witness = points.iter().copied().find(|i| case.p.eval(*i) && !q.eval(*i));
        let p_sat = points.iter().any(|i| case.p.eval(*i));
        let q_taut = points.iter().all(|i| q.eval(*i));
        let accepted = match ergx::compile(&src, "3.11", 1) {
            Ok(_) => true,
            Err(d) => !d.iter().any(|x| !x.is_warning),
        };
        let classes = vec![
            format!("verdict:{}", if accepted { "accepted" } else { "rejected" }),
            format!("implication:{}", if witness.is_none() { "holds" } else { "fails" }),
            format!("q:{}", if case.derive.is_some() { "derived-from-p" } else { "independent" }),
            format!("p-shape:{}", if matches!(case.p, Ty::Interval(..)) { "interval" } else { "predicate" }),
        ];
        if accepted {
            if let Some(w) = witness {
                // demonstration: the value flows out of g unchanged
                let demo = format!("{src}print! g({w})\n");
                let demo_ok = matches!(ergx::compile(&demo, "3.11", 1), Ok(_));
                let sig = if q.shape().split(' ').any(|t| t == "not") {
                    "accepted although P does not imply Q (the required type's predicate contains `not (...)`)".to_string()
                } else if matches!((&case.p, &q), (Ty::Interval(_, a, _, b), Ty::Interval(_, c, _, d)) if (*a && *c) || (*b && *d)) {
                    "accepted although P does not imply Q (both are interval forms with an open bound on the same side)".to_string()
                } else {
                    format!("accepted although P does not imply Q [P: {}] [Q: {}]", case.p.shape(), q.shape())
                };
                return Outcome::fail(
                    sig,
                    json!({"source": src, "witness": w, "P(witness)": true, "Q(witness)": false, "call_with_witness_accepted": demo_ok, "demo": demo}),
                )
                .classes(classes);
            }
        }
        Outcome::pass(accepted && p_sat && !q_taut).classes(classes)
    }
}
