//! C06 — subtyping is a preorder with the documented bottom, top and tower.
use crate::ergx;
use proptest::prelude::*;
use serde::{Deserialize, Serialize};
use serde_json::json;
use vkit::engine::{Mode, Outcome, Policy, Property, Tier};
use vkit::util::idx;

pub struct C06;

const TOWER: [&str; 6] = ["Bool", "Nat", "Int", "Ratio", "Float", "Complex"];
const CLASSES: [&str; 4] = ["Str", "NoneType", "Never", "Obj"];
const TRAITS: [&str; 6] = ["Eq", "Ord", "Hash", "Show", "Num", "PartialOrd"];

#[derive(Serialize, Deserialize, Clone, Debug, PartialEq)]
pub enum T {
    Tower(u8),
    Class(u8),
    Trait(u8),
    EnumInt(Vec<i64>),
    EnumStr(Vec<u8>),
    Interval(i64, u8),
    ListN(Box<T>, u8),
    List(Box<T>),
    Tuple(Box<T>, Box<T>),
    Dict(Box<T>),
    SetN(Box<T>, u8),
    Or(Box<T>, Box<T>),
    And(Box<T>, Box<T>),
}

impl T {
    fn erg(&self) -> String {
        let sub = |t: &T| match t {
            T::Or(..) | T::And(..) => format!("({})", t.erg()),
            _ => t.erg(),
        };
        match self {
            T::Tower(i) => TOWER[*i as usize % 6].into(),
            T::Class(i) => CLASSES[*i as usize % 4].into(),
            T::Trait(i) => TRAITS[*i as usize % 6].into(),
            T::EnumInt(v) => format!("{{{}}}", v.iter().map(|i| i.to_string()).collect::<Vec<_>>().join(", ")),
            T::EnumStr(v) => format!("{{{}}}", v.iter().map(|i| format!("\"{}\"", ["a", "b", "", "zz"][*i as usize % 4])).collect::<Vec<_>>().join(", ")),
            T::Interval(lo, w) => format!("{lo}..{}", lo + *w as i64),
            T::ListN(t, n) => format!("[{}; {}]", t.erg(), n % 4),
            T::List(t) => format!("List({})", t.erg()),
            // `(0..0, Bool)` would be read as the interval from 0 to the tuple (0, Bool)
            T::Tuple(a, b) => format!("({}, {})", if matches!(**a, T::Interval(..)) { format!("({})", a.erg()) } else { sub(a) }, b.erg()),
            T::Dict(t) => format!("{{Str: {}}}", t.erg()),
            T::SetN(t, n) => format!("{{{}; {}}}", t.erg(), n % 4),
            T::Or(a, b) => format!("{} or {}", sub(a), sub(b)),
            T::And(a, b) => format!("{} and {}", sub(a), sub(b)),
        }
    }
    fn has_refinement(&self) -> bool {
        match self {
            T::EnumInt(_) | T::EnumStr(_) | T::Interval(..) => true,
            T::ListN(t, _) | T::List(t) | T::Dict(t) | T::SetN(t, _) => t.has_refinement(),
            T::Tuple(a, b) | T::Or(a, b) | T::And(a, b) => a.has_refinement() || b.has_refinement(),
            _ => false,
        }
    }
    /// a literal enum / interval type below a union or an intersection
    fn refinement_in_composite(&self) -> bool {
        match self {
            T::Or(a, b) | T::And(a, b) => a.has_refinement() || b.has_refinement(),
            T::ListN(t, _) | T::List(t) | T::Dict(t) | T::SetN(t, _) => t.refinement_in_composite(),
            T::Tuple(a, b) => a.refinement_in_composite() || b.refinement_in_composite(),
            _ => false,
        }
    }
    fn kind(&self) -> &'static str {
        match self {
            T::Tower(_) => "tower-class",
            T::Class(_) => "class",
            T::Trait(_) => "trait",
            T::EnumInt(_) | T::EnumStr(_) => "enum",
            T::Interval(..) => "interval",
            T::ListN(..) | T::List(_) | T::Tuple(..) | T::Dict(_) | T::SetN(..) => "container",
            T::Or(..) => "union",
            T::And(..) => "intersection",
        }
    }
    /// the class the statement promises for a literal enum / interval type
    fn class_of_values(&self) -> Option<T> {
        match self {
            T::EnumInt(v) => Some(T::Tower(if v.iter().all(|i| *i >= 0) { 1 } else { 2 })),
            T::EnumStr(_) => Some(T::Class(0)),
            T::Interval(lo, _) => Some(T::Tower(if *lo >= 0 { 1 } else { 2 })),
            _ => None,
        }
    }
    /// one documented step up; `sel` picks among the applicable ones, `other` feeds unions
    fn step_up(&self, sel: u32, other: &T) -> (T, &'static str) {
        let mut opts: Vec<(T, &'static str)> = vec![
            (T::Or(Box::new(self.clone()), Box::new(other.clone())), "union-intro-left"),
            (T::Or(Box::new(other.clone()), Box::new(self.clone())), "union-intro-right"),
            (T::Class(3), "top"),
        ];
        // candidate steps whose premise is the checker's own answer (not a documented law)
        match self {
            T::Tower(_) => opts.push((T::Trait((sel >> 8) as u8 % 6), "class-to-trait?")),
            T::Trait(i) if *i % 6 == 1 => opts.push((T::Trait(5), "supertrait?")),
            T::Trait(i) if *i % 6 == 5 => opts.push((T::Trait(0), "supertrait?")),
            _ => {}
        }
        match self {
            T::Tower(i) if (*i % 6) < 5 => {
                opts.push((T::Tower(i % 6 + 1), "tower"));
                opts.push((T::Tower(i % 6 + 1 + (sel as u8 % (5 - i % 6))), "tower-far"));
            }
            T::And(a, b) => {
                opts.push(((**a).clone(), "intersection-elim-left"));
                opts.push(((**b).clone(), "intersection-elim-right"));
            }
            T::EnumInt(v) => {
                opts.push((self.class_of_values().unwrap(), "enum-class"));
                let mut w = v.clone();
                w.push(v.iter().max().unwrap() + 1);
                opts.push((T::EnumInt(w), "enum-grow"));
            }
            T::EnumStr(_) | T::Interval(..) => opts.push((self.class_of_values().unwrap(), "enum-class")),
            _ => {}
        }
        opts.swap_remove(idx(sel, opts.len()))
    }
}

#[derive(Serialize, Deserialize, Clone, Debug)]
pub struct Case {
    pub law: u8,
    pub a: T,
    pub b: T,
    pub c: T,
    pub s1: u32,
    pub s2: u32,
}

fn atom() -> impl Strategy<Value = T> {
    prop_oneof![
        4 => (0u8..6).prop_map(T::Tower),
        3 => (0u8..4).prop_map(T::Class),
        2 => (0u8..6).prop_map(T::Trait),
        2 => proptest::collection::btree_set(-3i64..8, 1..4).prop_map(|s| T::EnumInt(s.into_iter().collect())),
        1 => proptest::collection::btree_set(0u8..4, 1..3).prop_map(|s| T::EnumStr(s.into_iter().collect())),
        2 => (-3i64..6, 0u8..6).prop_map(|(a, w)| T::Interval(a, w)),
    ]
}

fn ty() -> impl Strategy<Value = T> {
    atom().prop_recursive(2, 6, 2, |inner| {
        prop_oneof![
            3 => (inner.clone(), inner.clone()).prop_map(|(a, b)| T::Or(Box::new(a), Box::new(b))),
            2 => (inner.clone(), inner.clone()).prop_map(|(a, b)| T::And(Box::new(a), Box::new(b))),
            1 => (inner.clone(), 0u8..4).prop_map(|(a, n)| T::ListN(Box::new(a), n)),
            1 => inner.clone().prop_map(|a| T::List(Box::new(a))),
            1 => (inner.clone(), inner.clone()).prop_map(|(a, b)| T::Tuple(Box::new(a), Box::new(b))),
            1 => inner.clone().prop_map(|a| T::Dict(Box::new(a))),
            1 => (inner, 0u8..4).prop_map(|(a, n)| T::SetN(Box::new(a), n)),
        ]
    })
}

/// what the checker says about `S <: T`: Some(true) accepted, Some(false) rejected with a
/// type mismatch, None when it objects to the types themselves
fn judged(s: &T, t: &T) -> (Option<bool>, String, String) {
    let src = format!("g(x: {}): {} = x\n", s.erg(), t.erg());
    match ergx::compile(&src, "3.11", 1) {
        Ok(_) => (Some(true), src, String::new()),
        Err(d) => {
            let errs: Vec<_> = d.iter().filter(|x| !x.is_warning).collect();
            if errs.is_empty() {
                (Some(true), src, String::new())
            } else if errs.iter().all(|e| e.msg.contains("return type") || e.msg.contains("mismatch")) {
                (Some(false), src, vkit::util::truncate(&errs[0].msg, 240))
            } else {
                (None, src, vkit::util::truncate(&errs[0].msg, 240))
            }
        }
    }
}

const LAWS: [&str; 7] = ["reflexive", "bottom-top", "union-intro", "intersection-elim", "enum-below-class", "tower", "transitive"];

impl Property for C06 {
    type Case = Case;
    fn id(&self) -> &'static str {
        "C06"
    }
    fn rule(&self) -> String {
        "types of nesting depth <= 2 over the tower classes, Str, NoneType, Never, Obj, the traits Eq/Ord/Hash/Show/Num/PartialOrd, integer/string enums, integer intervals, immutable containers ([T; n], List(T), (T, U), {Str: T}, {T; n}), unions and intersections. The judgement `S <: T` is observed as acceptance of `g(x: S): T = x`. Laws: reflexivity; Never <: T <: Obj; T <: (T or U) and U <: (T or U); (T and U) <: T and <: U; enum/interval below the class of its values; every pair of the numeric tower; transitivity over chains built from documented steps up (tower, union introduction, intersection elimination, enum to class, enum growth, top), over chains through candidate class-to-trait and supertrait steps, over random triples, and exhaustively over all triples (class, trait, trait) and (class, class, trait) of atoms (conclusion required only when both premises were accepted). Non-trivial = law instance judged on a type that is not a bare class (or any transitivity instance with both premises accepted); distinct by case".into()
    }
    fn strategy(&self, _tier: Tier) -> BoxedStrategy<Case> {
        (0u8..10, prop_oneof![2 => atom().boxed(), 3 => ty().boxed()], ty(), ty(), any::<u32>(), any::<u32>()).prop_map(|(law, a, b, c, s1, s2)| Case { law: if law >= 6 { 6 } else { law }, a, b, c, s1, s2 }).boxed()
    }
    fn cases(&self, tier: Tier) -> usize {
        tier.pick(3_000, 60_000)
    }
    /// transitivity over every (class of the tower or Str, trait, trait) and (class, class, trait) triple of atoms
    fn fixed_cases(&self, _tier: Tier) -> Vec<Case> {
        let mut v = vec![];
        let classes: Vec<T> = (0u8..6).map(T::Tower).chain(std::iter::once(T::Class(0))).collect();
        for a in &classes {
            for t1 in 0u8..6 {
                for t2 in 0u8..6 {
                    if t1 != t2 {
                        v.push(Case { law: 6, a: a.clone(), b: T::Trait(t1), c: T::Trait(t2), s1: 0, s2: 0 });
                    }
                }
            }
            for b in &classes {
                if a != b {
                    for t in 0u8..6 {
                        v.push(Case { law: 6, a: a.clone(), b: b.clone(), c: T::Trait(t), s1: 0, s2: 0 });
                    }
                }
            }
        }
        v
    }
    fn mode(&self) -> Mode {
        Mode::Workers
    }
    fn panic_policy(&self) -> Policy {
        Policy::Discard
    }
    fn abort_policy(&self) -> Policy {
        Policy::Discard
    }
    fn render(&self, case: &Case) -> serde_json::Value {
        json!({"law": LAWS[case.law as usize % 7], "a": case.a.erg(), "b": case.b.erg(), "c": case.c.erg()})
    }
    fn run(&self, case: &Case) -> Outcome {
        let law = LAWS[case.law as usize % 7];
        // (sub, sup, description) pairs that the law says must be accepted
        let mut musts: Vec<(T, T, String)> = vec![];
        let a = &case.a;
        let b = &case.b;
        let mut classes = vec![format!("law:{law}"), format!("a:{}", a.kind())];
        let mut nontrivial = !matches!(a, T::Tower(_) | T::Class(_) | T::Trait(_));
        match law {
            "reflexive" => musts.push((a.clone(), a.clone(), "T <: T".into())),
            "bottom-top" => {
                musts.push((T::Class(2), a.clone(), "Never <: T".into()));
                musts.push((a.clone(), T::Class(3), "T <: Obj".into()));
            }
            "union-intro" => {
                let u = T::Or(Box::new(a.clone()), Box::new(b.clone()));
                musts.push((a.clone(), u.clone(), "T <: (T or U)".into()));
                musts.push((b.clone(), u, "U <: (T or U)".into()));
                nontrivial = true;
            }
            "intersection-elim" => {
                let i = T::And(Box::new(a.clone()), Box::new(b.clone()));
                musts.push((i.clone(), a.clone(), "(T and U) <: T".into()));
                musts.push((i, b.clone(), "(T and U) <: U".into()));
                nontrivial = true;
            }
            "enum-below-class" => {
                // take the first enum/interval among a, b, c; otherwise make one from the selectors
                let e = [a, b, &case.c].into_iter().find(|t| t.class_of_values().is_some()).cloned().unwrap_or(T::EnumInt(vec![(case.s1 % 7) as i64 - 2, (case.s1 % 7) as i64 + (case.s2 % 3) as i64]));
                let e = if let T::EnumInt(mut v) = e {
                    v.sort();
                    v.dedup();
                    T::EnumInt(v)
                } else {
                    e
                };
                let cls = e.class_of_values().unwrap();
                musts.push((e.clone(), cls.clone(), "enum/interval <: class of its values".into()));
                if let T::Tower(i) = cls {
                    musts.push((e, T::Tower(i + 1 + (case.s2 % (5 - i as u32)) as u8), "enum/interval <: class above".into()));
                }
                nontrivial = true;
            }
            "tower" => {
                let i = (case.s1 % 6) as u8;
                let j = (case.s2 % 6) as u8;
                let (i, j) = if i <= j { (i, j) } else { (j, i) };
                musts.push((T::Tower(i), T::Tower(j), "numeric tower".into()));
                nontrivial = i != j;
            }
            _ => {
                // transitivity: chain by construction (even selector) or random triple
                let (x, y, z, how) = if case.s1 % 4 != 0 {
                    let (y, h1) = a.step_up(case.s1.wrapping_mul(2654435761), b);
                    let (z, h2) = y.step_up(case.s2, &case.c);
                    (a.clone(), y, z, format!("{h1}+{h2}"))
                } else {
                    (a.clone(), b.clone(), case.c.clone(), "random-triple".to_string())
                };
                classes.push(format!("chain:{how}"));
                let (j1, s1, _) = judged(&x, &y);
                let (j2, s2, _) = judged(&y, &z);
                if j1 == Some(true) && j2 == Some(true) {
                    let (j3, s3, m3) = judged(&x, &z);
                    if j3 != Some(true) {
                        let refin = x.refinement_in_composite() || y.refinement_in_composite() || z.refinement_in_composite();
                        return Outcome::fail(
                            if refin { "a law instance is not accepted when a literal enum / interval type occurs inside a union or intersection".to_string() } else { format!("transitivity fails ({how})") },
                            json!({"A<:B accepted": s1, "B<:C accepted": s2, "A<:C not accepted": s3, "message": m3}),
                        )
                        .classes(classes);
                    }
                    return Outcome::pass(true).classes(classes).class("premises:both-accepted");
                }
                if how != "random-triple" && !how.contains('?') {
                    // the steps are documented laws themselves
                    let (bad, src, desc) = if j1 != Some(true) { (j1, s1, how.split('+').next().unwrap().to_string()) } else { (j2, s2, how.split('+').nth(1).unwrap().to_string()) };
                    if bad.is_none() {
                        return Outcome::discard("the checker objects to the type expressions themselves").classes(classes);
                    }
                    let refin = x.refinement_in_composite() || y.refinement_in_composite() || z.refinement_in_composite();
                    return Outcome::fail(if refin { "a law instance is not accepted when a literal enum / interval type occurs inside a union or intersection".to_string() } else { format!("documented step not accepted ({desc})") }, json!({"source": src})).classes(classes);
                }
                return Outcome::pass(false).classes(classes).class("premises:not-both-accepted");
            }
        }
        for (s, t, desc) in &musts {
            let (j, src, msg) = judged(s, t);
            if j.is_none() {
                return Outcome::discard("the checker objects to the type expressions themselves").classes(classes);
            }
            if j != Some(true) {
                let sig = if s.refinement_in_composite() || t.refinement_in_composite() {
                    "a law instance is not accepted when a literal enum / interval type occurs inside a union or intersection".to_string()
                } else if law == "intersection-elim" && (matches!(a, T::Or(..) | T::And(..)) || matches!(b, T::Or(..) | T::And(..))) {
                    "intersection-elim: `(T and U) <: T` / `<: U` not accepted when T or U is itself a union or intersection of classes and traits".to_string()
                } else {
                    format!("{law}: `{desc}` not accepted [{} / {}]", s.kind(), t.kind())
                };
                return Outcome::fail(
                    sig,
                    json!({"source": src, "message": msg, "objects_to_types_themselves": j.is_none()}),
                )
                .classes(classes);
            }
        }
        Outcome::pass(nontrivial).classes(classes)
    }
}
