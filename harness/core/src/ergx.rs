//! Shared plumbing: in-process compilation for a chosen target / optimisation level,
//! diagnostics in a plain form, and execution of the produced bytecode or of a Python
//! source through the persistent exec workers.
use erg_common::config::ErgConfig;
use erg_common::error::{ErrorCore, ErrorKind, Location};
use erg_common::io::Input;
use erg_common::python_util::PythonVersion;
use erg_compiler::error::CompileErrors;
use erg_compiler::Compiler;
use serde::{Deserialize, Serialize};
use std::path::PathBuf;
use vkit::pyexec::{self, RunResult};

#[derive(Serialize, Deserialize, Clone, Debug, PartialEq, Eq)]
pub struct Diag {
    pub kind: String,
    pub is_warning: bool,
    pub msg: String,
    pub ln_begin: Option<u32>,
    pub col_begin: Option<u32>,
    pub ln_end: Option<u32>,
    pub col_end: Option<u32>,
}

pub fn diag_of(core: &ErrorCore) -> Diag {
    let loc = core.loc;
    Diag {
        kind: format!("{:?}", core.kind),
        is_warning: core.kind.is_warning(),
        msg: core.main_message.to_string(),
        ln_begin: loc.ln_begin(),
        col_begin: loc.col_begin(),
        ln_end: loc.ln_end(),
        col_end: loc.col_end(),
    }
}

pub fn diags_of(errs: &CompileErrors) -> Vec<Diag> {
    errs.iter().map(|e| diag_of(&e.core)).collect()
}

/// texts that mark an internal compiler error (C07)
pub fn is_internal_error(d: &Diag) -> bool {
    d.kind == "CompilerSystemError" || d.msg.contains("this is a bug of the Erg compiler") || d.msg.contains("This may be a bug of Erg compiler") || d.msg.contains("a bug of")
}

pub fn minor_of(ver: &str) -> u8 {
    ver[2..].parse().unwrap()
}

pub fn cfg_for(src: &str, ver: &str, opt: u8) -> ErgConfig {
    ErgConfig {
        input: Input::str(src.to_string()),
        opt_level: opt,
        py_magic_num: Some(pyexec::magic_of(ver)),
        target_version: Some(PythonVersion::new(3, Some(minor_of(ver)), Some(0))),
        ..ErgConfig::default()
    }
}

pub struct Compiled {
    pub pyc: Vec<u8>,
    pub warns: Vec<Diag>,
    pub compiler: Compiler,
}

/// Compiles `src` for Python `ver` at optimisation level `opt`.
pub fn compile(src: &str, ver: &str, opt: u8) -> Result<Compiled, Vec<Diag>> {
    let cfg = cfg_for(src, ver, opt);
    let magic = cfg.py_magic_num;
    let mut compiler = Compiler::new(cfg);
    match compiler.compile(src.to_string(), "exec") {
        Ok(arti) => {
            let warns = diags_of(&arti.warns);
            let pyc = arti.object.into_bytecode(magic);
            Ok(Compiled { pyc, warns, compiler })
        }
        Err(ea) => {
            let mut d = diags_of(&ea.errors);
            d.extend(diags_of(&ea.warns));
            Err(d)
        }
    }
}

fn scratch(name: &str) -> PathBuf {
    vkit::util::work_dir().join(name)
}

pub fn run_pyc(pyc: &[u8], ver: &str, timeout_s: f64) -> RunResult {
    let p = scratch(&format!("case_{ver}.pyc"));
    std::fs::write(&p, pyc).expect("write pyc");
    pyexec::with(ver, |w| w.run_pyc(&p, timeout_s))
}

pub fn run_py(src: &str, ver: &str, timeout_s: f64) -> RunResult {
    let p = scratch(&format!("ref_{ver}.py"));
    std::fs::write(&p, src).expect("write py");
    pyexec::with(ver, |w| w.run_py(&p, timeout_s))
}

/// The runtime library of the working tree must be importable by the compiled code.
pub fn warm_python(ver: &str) {
    let core = vkit::util::repo_root().join("crates/erg_compiler/lib/core");
    let s = core.to_string_lossy().to_string();
    pyexec::with(ver, |w| w.warm(&[&s], &["_erg_std_prelude"]));
}

#[allow(dead_code)]
pub fn _unused(_: ErrorKind, _: Location) {}
