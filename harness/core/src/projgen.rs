//! Generator of multi-module Erg projects (import graphs with typed public bindings) and their
//! reference model; shared by C19 and C20.
use proptest::prelude::*;
use serde::{Deserialize, Serialize};
use std::collections::BTreeSet;
use std::path::{Path, PathBuf};
use std::time::{Duration, Instant};

#[derive(Serialize, Deserialize, Clone, Debug)]
pub struct Mod {
    /// indices of imported modules (may contain the module itself and earlier modules)
    pub imports: Vec<usize>,
    /// which imports are used at top level (only honoured when the import is not in a cycle
    /// with this module), bit per import position
    pub top_uses: u8,
    /// which imports are used inside `.g` through a function (`.f`) / a variable (`.a`)
    pub fn_uses_f: u8,
    pub fn_uses_a: u8,
}

#[derive(Serialize, Deserialize, Clone, Debug)]
pub struct Proj {
    /// mods[0] is main.er, mods[k] is m<k>.er
    pub mods: Vec<Mod>,
}

pub fn name(k: usize) -> String {
    if k == 0 { "main".into() } else { format!("m{k}") }
}

impl Proj {
    pub fn n(&self) -> usize {
        self.mods.len()
    }
    fn imports(&self, k: usize) -> Vec<usize> {
        let mut v: Vec<usize> = self.mods[k].imports.iter().map(|j| j % self.n()).filter(|j| *j != 0).collect();
        // a module is imported at most once per file
        let mut seen = BTreeSet::new();
        v.retain(|j| seen.insert(*j));
        v
    }
    /// modules reachable from k (excluding k unless on a cycle)
    pub fn reach(&self, k: usize) -> BTreeSet<usize> {
        let mut seen = BTreeSet::new();
        let mut todo = self.imports(k);
        while let Some(j) = todo.pop() {
            if seen.insert(j) {
                todo.extend(self.imports(j));
            }
        }
        seen
    }
    pub fn in_cycle_with(&self, k: usize, j: usize) -> bool {
        j == k || self.reach(j).contains(&k)
    }
    pub fn shape_classes(&self) -> Vec<String> {
        let mut c = BTreeSet::new();
        let live: BTreeSet<usize> = self.reach(0);
        c.insert(format!("modules:{}", live.len() + 1));
        let mut cyc = false;
        for &k in &live {
            if self.imports(k).contains(&k) {
                c.insert("graph:self-import".to_string());
            }
            if self.reach(k).contains(&k) {
                cyc = true;
                let two = self.imports(k).iter().any(|j| *j != k && self.imports(*j).contains(&k));
                c.insert(if two { "graph:2-cycle".to_string() } else { "graph:longer-cycle".to_string() });
            }
        }
        if !cyc {
            c.insert("graph:dag".to_string());
        }
        // diamond: a module imported by >= 2 live modules
        for &j in &live {
            let importers = std::iter::once(0).chain(live.iter().copied()).filter(|k| *k != j && self.imports(*k).contains(&j)).count();
            if importers >= 2 {
                c.insert("graph:diamond".to_string());
            }
        }
        c.into_iter().collect()
    }
    pub fn a_of(k: usize) -> i64 {
        10 * k as i64 + 1
    }
    /// value of m<k>.g(): sum over the uses in its body (every `.f(1)` is 1 + j, every `.a` is a_of(j))
    pub fn g_of(&self, k: usize) -> i64 {
        let m = &self.mods[k];
        let mut s = k as i64;
        for (p, j) in self.imports(k).into_iter().enumerate() {
            if m.fn_uses_f >> (p % 8) & 1 == 1 {
                s += 1 + j as i64;
            }
            if m.fn_uses_a >> (p % 8) & 1 == 1 {
                s += Self::a_of(j);
            }
        }
        s
    }
    /// does module k read a variable of a cycle partner inside `.g`?
    pub fn var_use_in_cycle(&self) -> bool {
        let live: BTreeSet<usize> = std::iter::once(0).chain(self.reach(0)).collect();
        live.iter().any(|&k| self.imports(k).into_iter().enumerate().any(|(p, j)| self.mods[k].fn_uses_a >> (p % 8) & 1 == 1 && self.in_cycle_with(k, j)))
    }
    pub fn source(&self, k: usize) -> String {
        let m = &self.mods[k];
        let me = name(k);
        let mut s = String::new();
        let imps = self.imports(k);
        for j in &imps {
            s.push_str(&format!("{0} = import \"{0}\"\n", name(*j)));
        }
        s.push_str(&format!("print! \"start {me}\"\n"));
        if k != 0 {
            s.push_str(&format!(".a: Int = {}\n.s: Str = \"{me}\"\n.f(x: Int): Int = x + {k}\n", Self::a_of(k)));
        }
        let mut body = vec![k.to_string()];
        for (p, j) in imps.iter().enumerate() {
            if m.fn_uses_f >> (p % 8) & 1 == 1 {
                body.push(format!("{}.f(1)", name(*j)));
            }
            if m.fn_uses_a >> (p % 8) & 1 == 1 {
                body.push(format!("{}.a", name(*j)));
            }
        }
        s.push_str(&format!("{}g() = {}\n", if k == 0 { "" } else { "." }, body.join(" + ")));
        for (p, j) in imps.iter().enumerate() {
            if m.top_uses >> (p % 8) & 1 == 1 && !self.in_cycle_with(k, *j) {
                let nj = name(*j);
                s.push_str(&format!("t{p}: Int = {nj}.a\nu{p}: Str = {nj}.s\nprint! \"{me} sees\", u{p}, t{p}, {nj}.f({k}), {nj}.g()\n"));
            }
        }
        if k == 0 {
            s.push_str("print! \"main g\", g()\n");
        }
        s.push_str(&format!("print! \"end {me}\"\n"));
        s
    }
    /// stdout lines the model predicts, as a sorted multiset
    pub fn expected_lines(&self) -> Vec<String> {
        let live: BTreeSet<usize> = std::iter::once(0).chain(self.reach(0)).collect();
        let mut out = vec![];
        for &k in &live {
            out.push(format!("start {}", name(k)));
            out.push(format!("end {}", name(k)));
            for (p, j) in self.imports(k).into_iter().enumerate() {
                if self.mods[k].top_uses >> (p % 8) & 1 == 1 && !self.in_cycle_with(k, j) {
                    out.push(format!("{} sees {} {} {} {}", name(k), name(j), Self::a_of(j), k + j, self.g_of(j)));
                }
            }
        }
        out.push(format!("main g {}", self.g_of(0)));
        out.sort();
        out
    }
    pub fn write_to(&self, dir: &Path) -> std::io::Result<()> {
        std::fs::create_dir_all(dir)?;
        let live: BTreeSet<usize> = std::iter::once(0).chain(self.reach(0)).collect();
        for k in live {
            std::fs::write(dir.join(format!("{}.er", name(k))), self.source(k))?;
        }
        Ok(())
    }
    pub fn render(&self) -> serde_json::Value {
        let live: BTreeSet<usize> = std::iter::once(0).chain(self.reach(0)).collect();
        serde_json::Value::Object(live.into_iter().map(|k| (format!("{}.er", name(k)), serde_json::Value::String(self.source(k)))).collect())
    }
}

pub fn proj_strategy() -> BoxedStrategy<Proj> {
    (1usize..=8)
        .prop_flat_map(|n| {
            let m = (proptest::collection::vec(0usize..64, 0..4), any::<u8>(), any::<u8>(), any::<u8>()).prop_map(|(imports, top_uses, f, a)| Mod { imports, top_uses, fn_uses_f: f, fn_uses_a: a & f & 0x55 });
            proptest::collection::vec(m, n)
        })
        .prop_map(|mut mods| {
            // keep every module reachable: module k (k >= 1) is imported by an earlier one
            let n = mods.len();
            for k in 1..n {
                let parent = (mods[k].top_uses as usize) % k;
                if !mods[parent].imports.iter().any(|j| j % n == k) && mods[parent].imports.len() < 6 {
                    mods[parent].imports.push(k);
                }
            }
            Proj { mods }
        })
        .boxed()
}

pub struct Ran {
    pub stdout: String,
    pub stderr: String,
    pub code: Option<i32>,
    pub timed_out: bool,
    pub secs: f64,
}

pub fn cli(name: &str) -> Option<PathBuf> {
    std::env::current_exe().ok().and_then(|p| p.parent().map(|d| d.join(name))).filter(|p| p.exists())
}

/// runs a command with a wall-clock limit; kills it on expiry
pub fn run_limited(mut cmd: std::process::Command, limit_s: f64) -> std::io::Result<Ran> {
    use std::io::Read;
    use std::process::Stdio;
    let t0 = Instant::now();
    let mut child = cmd.stdin(Stdio::null()).stdout(Stdio::piped()).stderr(Stdio::piped()).spawn()?;
    let mut so = child.stdout.take().unwrap();
    let mut se = child.stderr.take().unwrap();
    let h1 = std::thread::spawn(move || {
        let mut b = vec![];
        let _ = so.read_to_end(&mut b);
        b
    });
    let h2 = std::thread::spawn(move || {
        let mut b = vec![];
        let _ = se.read_to_end(&mut b);
        b
    });
    let mut timed_out = false;
    let status = loop {
        if let Some(st) = child.try_wait()? {
            break Some(st);
        }
        if t0.elapsed().as_secs_f64() > limit_s {
            timed_out = true;
            let _ = child.kill();
            let _ = child.wait();
            break None;
        }
        std::thread::sleep(Duration::from_millis(5));
    };
    let stdout = String::from_utf8_lossy(&h1.join().unwrap_or_default()).to_string();
    let stderr = String::from_utf8_lossy(&h2.join().unwrap_or_default()).to_string();
    Ok(Ran { stdout, stderr, code: status.and_then(|s| s.code()), timed_out, secs: t0.elapsed().as_secs_f64() })
}

pub fn strip_ansi(s: &str) -> String {
    let mut out = String::new();
    let mut it = s.chars().peekable();
    while let Some(c) = it.next() {
        if c == '\u{1b}' {
            for d in it.by_ref() {
                if d == 'm' {
                    break;
                }
            }
        } else {
            out.push(c);
        }
    }
    out
}
