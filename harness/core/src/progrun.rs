//! Running a generated program both ways and comparing the observation channel
//! (stdout bytes, uncaught exception type, exit status).
use crate::ergx::{self, Diag};
use crate::gen::{Gen, GenCfg, Program};
use serde_json::{json, Value};
use vkit::engine::Outcome;
use vkit::pyexec::{self, RunResult};

pub struct Built {
    pub prog: Program,
    pub erg: String,
    pub py: String,
    pub features: Vec<String>,
}

pub fn build(tape: &[u32], cfg: GenCfg) -> Built {
    let mut g = Gen::new(tape, cfg);
    let prog = g.program();
    let features: Vec<String> = g.features.iter().map(|s| s.to_string()).collect();
    Built { erg: prog.to_erg(), py: prog.to_python(), prog, features }
}

pub fn obs_json(r: &RunResult) -> Value {
    r.summary()
}

pub fn same_obs(a: &RunResult, b: &RunResult) -> bool {
    a.obs() == b.obs()
}

/// how two observations differ, as a short root-cause-ish label
pub fn diff_kind(erg: &RunResult, py: &RunResult) -> String {
    match (&erg.exc, &py.exc) {
        (Some(e), None) => format!("compiled program raises {e}: {}", vkit::panics::norm_msg(&erg.msg)),
        (None, Some(p)) => format!("compiled program does not raise the {p} the source means"),
        (Some(e), Some(p)) if e != p => format!("compiled program raises {e} where the source means {p}"),
        _ => {
            if erg.status != py.status {
                format!("exit status differs ({} vs {})", erg.status, py.status)
            } else {
                let (a, b) = first_diff_line(&erg.stdout_str(), &py.stdout_str());
                let n = |s: &str| vkit::panics::norm_msg(&s.chars().take(48).collect::<String>());
                format!("printed output differs: `{}` where the source means `{}`", n(&a), n(&b))
            }
        }
    }
}

pub fn first_diff_line(a: &str, b: &str) -> (String, String) {
    for (x, y) in a.lines().zip(b.lines()) {
        if x != y {
            return (x.chars().take(160).collect(), y.chars().take(160).collect());
        }
    }
    let (na, nb) = (a.lines().count(), b.lines().count());
    (format!("<{na} lines>"), format!("<{nb} lines>"))
}

pub enum Compiled {
    Ok(ergx::Compiled),
    Rejected(Vec<Diag>),
}

/// compile; internal compiler errors and rejections are returned to the caller to classify
pub fn compile(src: &str, ver: &str, opt: u8) -> Compiled {
    match ergx::compile(src, ver, opt) {
        Ok(c) => Compiled::Ok(c),
        Err(d) => Compiled::Rejected(d),
    }
}

/// Fresh-process confirmation of a mismatch along the product path (DESIGN 1.2).
pub fn confirm_fresh(pyc: &[u8], py_src: &str, ver: &str) -> Option<Value> {
    let dir = vkit::util::work_dir();
    let p1 = dir.join("confirm.pyc");
    let p2 = dir.join("confirm_ref.py");
    std::fs::write(&p1, pyc).ok()?;
    std::fs::write(&p2, py_src).ok()?;
    let (o1, e1, s1) = pyexec::fresh_run_pyc(ver, &p1, None);
    let (o2, e2, s2) = pyexec::fresh_run_py(ver, &p2, None);
    let x1 = pyexec::exc_type_from_stderr(&e1);
    let x2 = pyexec::exc_type_from_stderr(&e2);
    if o1 == o2 && x1 == x2 && s1 == s2 {
        None
    } else {
        Some(json!({"fresh_compiled": {"stdout": vkit::util::truncate(&String::from_utf8_lossy(&o1), 300), "exc": x1, "status": s1},
                    "fresh_reference": {"stdout": vkit::util::truncate(&String::from_utf8_lossy(&o2), 300), "exc": x2, "status": s2}}))
    }
}

pub fn rejected_outcome(diags: &[Diag]) -> Outcome {
    let first = diags.iter().find(|d| !d.is_warning);
    let kind = first.map(|d| d.kind.clone()).unwrap_or_else(|| "?".into());
    let mut o = Outcome::discard("rejected-by-checker").class(format!("rejected:{kind}"));
    o.detail = json!(first.map(|d| vkit::util::truncate(&d.msg, 200)));
    o
}
