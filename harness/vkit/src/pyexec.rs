//! Client side of `py/execd.py`: persistent Python exec workers, one per interpreter
//! version per process, created lazily.
use serde_json::{json, Value};
use std::collections::BTreeMap;
use std::io::{BufRead, BufReader, Write};
use std::path::{Path, PathBuf};
use std::process::{Child, ChildStdin, ChildStdout, Command, Stdio};
use std::sync::Mutex;

pub const VERSIONS: &[(&str, &str)] = &[
    ("3.7", "3.7.16"),
    ("3.8", "3.8.18"),
    ("3.9", "3.9.18"),
    ("3.10", "3.10.13"),
    ("3.11", "3.11.7"),
    ("3.12", "3.12.1"),
    ("3.13", "3.13.0"),
];

/// Absolute path of the interpreter for `ver` ("3.11"), or "vt" for the tooling venv.
pub fn interpreter(ver: &str) -> PathBuf {
    if ver == "vt" {
        return PathBuf::from("/opt/veriftools/pyvenv/bin/python3");
    }
    for (v, full) in VERSIONS {
        if *v == ver {
            return PathBuf::from(format!("/root/.pyenv/versions/{full}/bin/python{v}"));
        }
    }
    panic!("unknown python version {ver}");
}

/// (python magic number, target version string) for the targets erg supports.
pub fn magic_of(ver: &str) -> u32 {
    match ver {
        "3.7" => 3394,
        "3.8" => 3413,
        "3.9" => 3425,
        "3.10" => 3439,
        "3.11" => 3495,
        _ => panic!("no magic for {ver}"),
    }
}

pub struct PyExec {
    pub ver: String,
    child: Child,
    stdin: ChildStdin,
    stdout: BufReader<ChildStdout>,
    seq: u64,
}

#[derive(Clone, Debug, PartialEq, Eq)]
pub struct RunResult {
    pub stdout: Vec<u8>,
    pub exc: Option<String>,
    pub status: i64,
    pub phase: String,
    pub msg: String,
    pub frame_file: String,
    pub frame_line: i64,
    pub frame_text: String,
    pub timeout: bool,
    pub died: bool,
}

impl RunResult {
    /// The observation channel of DESIGN 2.3.
    pub fn obs(&self) -> (Vec<u8>, Option<String>, i64) {
        (self.stdout.clone(), self.exc.clone(), self.status)
    }
    pub fn stdout_str(&self) -> String {
        String::from_utf8_lossy(&self.stdout).to_string()
    }
    pub fn summary(&self) -> Value {
        json!({"stdout": crate::util::truncate(&self.stdout_str(), 600), "exc": self.exc, "status": self.status,
               "msg": crate::util::truncate(&self.msg, 200), "timeout": self.timeout, "died": self.died,
               "frame": format!("{}:{} {}", self.frame_file, self.frame_line, self.frame_text)})
    }
}

fn unhex(s: &str) -> Vec<u8> {
    let b = s.as_bytes();
    let mut out = Vec::with_capacity(b.len() / 2);
    let h = |c: u8| -> u8 {
        match c {
            b'0'..=b'9' => c - b'0',
            b'a'..=b'f' => c - b'a' + 10,
            _ => 0,
        }
    };
    let mut i = 0;
    while i + 1 < b.len() {
        out.push(h(b[i]) << 4 | h(b[i + 1]));
        i += 2;
    }
    out
}

impl PyExec {
    pub fn spawn(ver: &str) -> PyExec {
        let script = crate::util::verif_root().join("py").join("execd.py");
        let mut child = Command::new(interpreter(ver))
            .arg("-u")
            .arg("-B")
            .arg(script)
            .env("PYTHONDONTWRITEBYTECODE", "1")
            .env("PYTHONHASHSEED", "0")
            .env_remove("PYTHONPATH")
            .stdin(Stdio::piped())
            .stdout(Stdio::piped())
            .stderr(Stdio::null())
            .spawn()
            .unwrap_or_else(|e| panic!("cannot spawn python {ver}: {e}"));
        let stdin = child.stdin.take().unwrap();
        let stdout = BufReader::new(child.stdout.take().unwrap());
        PyExec {
            ver: ver.to_string(),
            child,
            stdin,
            stdout,
            seq: 0,
        }
    }

    pub fn request(&mut self, req: &Value) -> Value {
        let line = serde_json::to_string(req).unwrap();
        self.stdin
            .write_all(line.as_bytes())
            .and_then(|_| self.stdin.write_all(b"\n"))
            .and_then(|_| self.stdin.flush())
            .unwrap_or_else(|e| panic!("python worker {} write failed: {e}", self.ver));
        let mut resp = String::new();
        let n = self
            .stdout
            .read_line(&mut resp)
            .unwrap_or_else(|e| panic!("python worker {} read failed: {e}", self.ver));
        if n == 0 {
            panic!("python worker {} closed its pipe", self.ver);
        }
        serde_json::from_str(&resp)
            .unwrap_or_else(|e| panic!("python worker {} bad response {e}: {resp}", self.ver))
    }

    pub fn warm(&mut self, sys_path: &[&str], modules: &[&str]) {
        self.request(&json!({"op":"warm","sys_path":sys_path,"modules":modules}));
    }

    fn run(&mut self, op: &str, path: &Path, timeout_s: f64, cwd: Option<&Path>) -> RunResult {
        self.seq += 1;
        let out_path = crate::util::work_dir().join(format!("out_{}_{}.txt", self.ver, self.seq % 4));
        let v = self.request(&json!({"op": op, "path": path, "out_path": out_path, "timeout": timeout_s,
            "cwd": cwd}));
        if let Some(e) = v.get("error") {
            panic!("python worker {} infrastructure error: {e}", self.ver);
        }
        if let Some(e) = v.get("infra_error") {
            panic!("python worker {} child infrastructure error: {e}", self.ver);
        }
        let frame = v.get("frame").cloned().unwrap_or(Value::Null);
        RunResult {
            stdout: unhex(v.get("stdout_hex").and_then(|x| x.as_str()).unwrap_or("")),
            exc: v.get("exc").and_then(|x| x.as_str()).map(|s| s.to_string()),
            status: v.get("status").and_then(|x| x.as_i64()).unwrap_or(-1),
            phase: v.get("phase").and_then(|x| x.as_str()).unwrap_or("").to_string(),
            msg: v.get("msg").and_then(|x| x.as_str()).unwrap_or("").to_string(),
            frame_file: frame.get("file").and_then(|x| x.as_str()).unwrap_or("").to_string(),
            frame_line: frame.get("line").and_then(|x| x.as_i64()).unwrap_or(0),
            frame_text: frame.get("text").and_then(|x| x.as_str()).unwrap_or("").to_string(),
            timeout: v.get("timeout").and_then(|x| x.as_bool()).unwrap_or(false),
            died: v.get("died").and_then(|x| x.as_bool()).unwrap_or(false),
        }
    }

    pub fn run_pyc(&mut self, path: &Path, timeout_s: f64) -> RunResult {
        self.run("run_pyc", path, timeout_s, None)
    }
    pub fn run_py(&mut self, path: &Path, timeout_s: f64) -> RunResult {
        self.run("run_py", path, timeout_s, None)
    }
    pub fn run_pyc_in(&mut self, path: &Path, timeout_s: f64, cwd: &Path) -> RunResult {
        self.run("run_pyc", path, timeout_s, Some(cwd))
    }
    pub fn run_py_in(&mut self, path: &Path, timeout_s: f64, cwd: &Path) -> RunResult {
        self.run("run_py", path, timeout_s, Some(cwd))
    }

    /// Calls `func(args)` of the Python module at `module` (a file under /verif/py).
    pub fn call(&mut self, module: &str, func: &str, args: Value, fork: bool) -> Value {
        let mpath = crate::util::verif_root().join("py").join(module);
        let v = self.request(&json!({"op":"call","module":mpath,"func":func,"args":args,"fork":fork, "timeout": 120.0}));
        if let Some(e) = v.get("error") {
            panic!("python worker {} call {module}.{func} failed: {e} {}", self.ver, v.get("trace").cloned().unwrap_or(Value::Null));
        }
        if let Some(e) = v.get("infra_error") {
            panic!("python worker {} call {module}.{func} failed in child: {e}", self.ver);
        }
        if v.get("timeout").is_some() || v.get("died").is_some() {
            return v;
        }
        v.get("value").cloned().unwrap_or(Value::Null)
    }
}

impl Drop for PyExec {
    fn drop(&mut self) {
        let _ = self.child.kill();
        let _ = self.child.wait();
    }
}

static POOL: Mutex<BTreeMap<String, PyExec>> = Mutex::new(BTreeMap::new());

/// Runs `f` with this process's worker for interpreter `ver` (spawned on first use).
pub fn with<T>(ver: &str, f: impl FnOnce(&mut PyExec) -> T) -> T {
    let mut g = POOL.lock().unwrap_or_else(|e| e.into_inner());
    if !g.contains_key(ver) {
        let mut p = PyExec::spawn(ver);
        let pong = p.request(&json!({"op":"ping"}));
        assert!(pong.get("ok").is_some(), "python {ver} worker did not answer ping");
        g.insert(ver.to_string(), p);
    }
    f(g.get_mut(ver).unwrap())
}

/// Drops all workers (used before exiting so children are reaped).
pub fn shutdown() {
    let mut g = POOL.lock().unwrap_or_else(|e| e.into_inner());
    g.clear();
}

/// Fresh-process confirmation along the product path: `python -c "import marshal; exec(...)"`.
pub fn fresh_run_pyc(ver: &str, path: &Path, cwd: Option<&Path>) -> (Vec<u8>, Vec<u8>, i32) {
    let code = format!(
        "import marshal; exec(marshal.loads(open(r\"{}\", \"rb\").read()[16:]))",
        path.display()
    );
    let mut c = Command::new(interpreter(ver));
    c.arg("-B").arg("-c").arg(code).env("PYTHONIOENCODING", "utf-8:backslashreplace");
    if let Some(d) = cwd {
        c.current_dir(d);
    }
    let out = c.output().expect("cannot run python");
    (out.stdout, out.stderr, out.status.code().unwrap_or(-1))
}

pub fn fresh_run_py(ver: &str, path: &Path, cwd: Option<&Path>) -> (Vec<u8>, Vec<u8>, i32) {
    let mut c = Command::new(interpreter(ver));
    c.arg("-B").arg(path).env("PYTHONIOENCODING", "utf-8:backslashreplace");
    if let Some(d) = cwd {
        c.current_dir(d);
    }
    let out = c.output().expect("cannot run python");
    (out.stdout, out.stderr, out.status.code().unwrap_or(-1))
}

/// Last line of a traceback printed on stderr -> exception type name.
pub fn exc_type_from_stderr(stderr: &[u8]) -> Option<String> {
    let s = String::from_utf8_lossy(stderr);
    let mut last = None;
    for l in s.lines() {
        let t = l.trim_end();
        if t.is_empty() || t.starts_with(' ') {
            continue;
        }
        last = Some(t.to_string());
    }
    let last = last?;
    if !s.contains("Traceback (most recent call last)") {
        return None;
    }
    let name: String = last
        .chars()
        .take_while(|c| c.is_alphanumeric() || *c == '_' || *c == '.')
        .collect();
    if name.is_empty() {
        None
    } else {
        Some(name.rsplit('.').next().unwrap().to_string())
    }
}
