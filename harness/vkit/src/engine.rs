//! The property engine: seeded generation through proptest value trees, parallel execution
//! (in-process or in crash-isolated worker processes), shrinking, known-finding matching,
//! replay files, evidence.
use crate::known::{self, Finding};
use crate::panics;
use crate::util::{hash_str, verif_root};
use proptest::strategy::{BoxedStrategy, Strategy, ValueTree};
use proptest::test_runner::{Config, RngAlgorithm, TestRng, TestRunner};
use serde::de::DeserializeOwned;
use serde::{Deserialize, Serialize};
use serde_json::{json, Value};
use std::collections::{BTreeMap, HashSet, VecDeque};
use std::io::{BufRead, BufReader, Write};
use std::process::{Child, ChildStdin, Command, Stdio};
use std::sync::mpsc::{channel, Receiver, RecvTimeoutError};
use std::sync::{Arc, Mutex};
use std::time::{Duration, Instant};

#[derive(Clone, Copy, Debug, PartialEq, Eq)]
pub enum Tier {
    Quick,
    Thorough,
}
impl Tier {
    pub fn name(&self) -> &'static str {
        match self {
            Tier::Quick => "quick",
            Tier::Thorough => "thorough",
        }
    }
    pub fn pick(&self, quick: usize, thorough: usize) -> usize {
        match self {
            Tier::Quick => quick,
            Tier::Thorough => thorough,
        }
    }
}

#[derive(Serialize, Deserialize, Clone, Copy, Debug, PartialEq, Eq, Default)]
pub enum Status {
    #[default]
    Pass,
    /// the case is outside the property's domain (counted, never a verdict)
    Discard,
    Fail,
    /// the case could not be judged (watchdog, infrastructure); never a violation
    Inconclusive,
}

#[derive(Serialize, Deserialize, Clone, Debug, Default)]
pub struct Outcome {
    pub status: Status,
    /// non-trivial by the property's stated rule
    pub nontrivial: bool,
    /// number of oracle evaluations this case performed (default 1)
    #[serde(default)]
    pub evals: u64,
    /// hashes of distinct non-trivial sub-instances (when a case contains many)
    #[serde(default)]
    pub sub_nontrivial: Vec<u64>,
    /// generator classes this case belongs to (histogram in the evidence)
    #[serde(default)]
    pub classes: Vec<String>,
    /// failure signature (root-cause key), empty unless Fail
    #[serde(default)]
    pub sig: String,
    /// observed vs expected etc.
    #[serde(default)]
    pub detail: Value,
}

impl Outcome {
    pub fn pass(nontrivial: bool) -> Outcome {
        Outcome {
            status: Status::Pass,
            nontrivial,
            evals: 1,
            ..Default::default()
        }
    }
    pub fn discard(why: &str) -> Outcome {
        Outcome {
            status: Status::Discard,
            evals: 1,
            classes: vec![format!("discard:{why}")],
            ..Default::default()
        }
    }
    pub fn inconclusive(why: &str) -> Outcome {
        Outcome {
            status: Status::Inconclusive,
            evals: 1,
            classes: vec![format!("inconclusive:{why}")],
            ..Default::default()
        }
    }
    pub fn fail(sig: impl Into<String>, detail: Value) -> Outcome {
        Outcome {
            status: Status::Fail,
            nontrivial: true,
            evals: 1,
            sig: sig.into(),
            detail,
            ..Default::default()
        }
    }
    pub fn class(mut self, c: impl Into<String>) -> Outcome {
        self.classes.push(c.into());
        self
    }
    pub fn classes(mut self, cs: impl IntoIterator<Item = String>) -> Outcome {
        self.classes.extend(cs);
        self
    }
}

#[derive(Clone, Copy, Debug, PartialEq, Eq)]
pub enum Mode {
    /// run cases sequentially inside the driver (cheap, crash-free code)
    InProcess,
    /// run cases in a pool of worker processes (crash / hang isolation, parallel)
    Workers,
}

/// What a panic / abort / hang inside the code under test means for this property.
#[derive(Clone, Copy, Debug, PartialEq, Eq)]
pub enum Policy {
    Fail,
    Discard,
    Inconclusive,
}

pub trait Property: Sync {
    type Case: Serialize + DeserializeOwned + Clone + std::fmt::Debug + 'static;
    fn id(&self) -> &'static str;
    /// how cases are generated and what makes one non-trivial / distinct
    fn rule(&self) -> String;
    fn assumptions(&self) -> Vec<String> {
        vec![]
    }
    fn strategy(&self, tier: Tier) -> BoxedStrategy<Self::Case>;
    fn cases(&self, tier: Tier) -> usize;
    /// deterministic cases run before the generated ones (ladders, enumerations)
    fn fixed_cases(&self, _tier: Tier) -> Vec<Self::Case> {
        vec![]
    }
    /// the oracle
    fn run(&self, case: &Self::Case) -> Outcome;
    fn mode(&self) -> Mode {
        Mode::InProcess
    }
    /// a panic whose location is inside erg-lang/erg
    fn panic_policy(&self) -> Policy {
        Policy::Fail
    }
    /// worker process death (abort, stack overflow, signal)
    fn abort_policy(&self) -> Policy {
        Policy::Fail
    }
    /// watchdog expiry; Fail only for properties whose statement is termination
    fn hang_policy(&self) -> Policy {
        Policy::Inconclusive
    }
    fn timeout_s(&self) -> f64 {
        60.0
    }
    fn render(&self, case: &Self::Case) -> Value {
        serde_json::to_value(case).unwrap_or(Value::Null)
    }
    fn exhaustive(&self, _tier: Tier) -> bool {
        false
    }
    fn level(&self) -> &'static str {
        "exploration"
    }
    /// extra keys for evidence.coverage, computed at the end of a run
    fn extra_coverage(&self) -> Value {
        Value::Null
    }
    /// maximum number of oracle runs spent shrinking one failure
    fn shrink_budget(&self) -> usize {
        400
    }
    /// per-process setup in worker / in-process mode
    fn setup(&self) {}
}

pub struct Args {
    pub tier: Tier,
    pub replay: Option<String>,
    pub worker: bool,
    pub seed: u64,
    pub jobs: usize,
    pub cases_override: Option<usize>,
    pub strict: bool,
}

pub fn parse_args(rest: &[String]) -> Args {
    let mut tier = match std::env::var("VERIF_TIER").ok().as_deref() {
        Some("thorough") => Tier::Thorough,
        _ => Tier::Quick,
    };
    let mut replay = None;
    let mut worker = false;
    let mut strict = false;
    let mut i = 0;
    while i < rest.len() {
        match rest[i].as_str() {
            "--tier" => {
                i += 1;
                tier = if rest.get(i).map(|s| s.as_str()) == Some("thorough") {
                    Tier::Thorough
                } else {
                    Tier::Quick
                };
            }
            "--replay" => {
                i += 1;
                replay = rest.get(i).cloned();
            }
            "--worker" => worker = true,
            "--strict" => strict = true,
            _ => {}
        }
        i += 1;
    }
    let seed = std::env::var("VERIF_SEED")
        .ok()
        .and_then(|s| s.trim().parse::<i128>().ok())
        .map(|v| v as u64)
        .unwrap_or(0);
    let jobs = std::env::var("VERIF_JOBS")
        .ok()
        .and_then(|s| s.parse().ok())
        .unwrap_or_else(|| {
            std::thread::available_parallelism()
                .map(|n| n.get())
                .unwrap_or(8)
                .min(16)
        });
    let cases_override = std::env::var("VERIF_CASES").ok().and_then(|s| s.parse().ok());
    Args {
        tier,
        replay,
        worker,
        seed,
        jobs,
        cases_override,
        strict,
    }
}

fn rng_for(seed: u64, id: &str) -> TestRng {
    // 0 is remapped to a fixed non-zero constant; the property id is mixed in so that
    // checks do not share streams.
    let s = if seed == 0 { 0x5eed_c0de_2026_0921 } else { seed };
    let mut bytes = [0u8; 32];
    bytes[..8].copy_from_slice(&s.to_le_bytes());
    bytes[8..16].copy_from_slice(&hash_str(id).to_le_bytes());
    bytes[16..24].copy_from_slice(&s.rotate_left(17).wrapping_mul(0x9e3779b97f4a7c15).to_le_bytes());
    TestRng::from_seed(RngAlgorithm::ChaCha, &bytes)
}

/// Runs the oracle under catch_unwind and applies the panic policy.
pub fn run_guarded<P: Property>(p: &P, case: &P::Case) -> Outcome {
    match panics::catch(|| p.run(case)) {
        Ok(mut o) => {
            if o.evals == 0 {
                o.evals = 1;
            }
            o
        }
        Err(info) => {
            if info.origin == "erg" {
                let sig = format!(
                    "panic@{} {}",
                    panics::norm_loc(&info.loc),
                    panics::norm_msg(&info.msg)
                );
                match p.panic_policy() {
                    Policy::Fail => Outcome::fail(sig, json!({"panic_at": info.loc, "message": info.msg})),
                    Policy::Discard => Outcome::discard("erg-panic").class(format!("erg-{sig}")),
                    Policy::Inconclusive => Outcome::inconclusive("erg-panic"),
                }
            } else {
                // a panic of the harness itself is an infrastructure failure, never a verdict
                let mut o = Outcome::inconclusive("harness-panic");
                o.detail = json!({"panic_at": info.loc, "message": info.msg});
                o
            }
        }
    }
}

// ------------------------------------------------------------------------------------------
// worker processes

pub fn worker_loop<P: Property>(p: &P) {
    panics::install();
    p.setup();
    let stdin = std::io::stdin();
    let stdout = std::io::stdout();
    for line in stdin.lock().lines() {
        let line = match line {
            Ok(l) => l,
            Err(_) => break,
        };
        if line.trim().is_empty() {
            continue;
        }
        let out = match serde_json::from_str::<P::Case>(&line) {
            Ok(case) => run_guarded(p, &case),
            Err(e) => {
                let mut o = Outcome::inconclusive("bad-case-json");
                o.detail = json!(e.to_string());
                o
            }
        };
        let s = serde_json::to_string(&out).unwrap();
        let mut h = stdout.lock();
        let _ = writeln!(h, "\n@@R {s}");
        let _ = h.flush();
    }
    crate::pyexec::shutdown();
}

struct WorkerProc {
    child: Child,
    stdin: ChildStdin,
    rx: Receiver<Option<String>>,
}

enum Reply {
    Out(Outcome),
    Died(String),
    Timeout,
}

impl WorkerProc {
    fn spawn(id: &str, tier: Tier) -> WorkerProc {
        let exe = std::env::current_exe().expect("current_exe");
        let mut child = Command::new(exe)
            .arg(id)
            .arg("--worker")
            .arg("--tier")
            .arg(tier.name())
            .stdin(Stdio::piped())
            .stdout(Stdio::piped())
            .stderr(if std::env::var("VERIF_WORKER_STDERR").is_ok() {
                Stdio::inherit()
            } else {
                Stdio::null()
            })
            .spawn()
            .expect("cannot spawn worker");
        let stdin = child.stdin.take().unwrap();
        let out = child.stdout.take().unwrap();
        let (tx, rx) = channel();
        std::thread::spawn(move || {
            let rd = BufReader::new(out);
            for l in rd.split(b'\n') {
                match l {
                    Ok(l) => {
                        if l.starts_with(b"@@R ") {
                            let s = String::from_utf8_lossy(&l[4..]).to_string();
                            if tx.send(Some(s)).is_err() {
                                return;
                            }
                        }
                    }
                    Err(_) => break,
                }
            }
            let _ = tx.send(None);
        });
        WorkerProc { child, stdin, rx }
    }

    fn exec(&mut self, case_json: &str, timeout: Duration) -> Reply {
        if self
            .stdin
            .write_all(case_json.as_bytes())
            .and_then(|_| self.stdin.write_all(b"\n"))
            .and_then(|_| self.stdin.flush())
            .is_err()
        {
            return Reply::Died(self.reap());
        }
        match self.rx.recv_timeout(timeout) {
            Ok(Some(s)) => match serde_json::from_str::<Outcome>(&s) {
                Ok(o) => Reply::Out(o),
                Err(e) => {
                    let mut o = Outcome::inconclusive("bad-outcome-json");
                    o.detail = json!(e.to_string());
                    Reply::Out(o)
                }
            },
            Ok(None) => Reply::Died(self.reap()),
            Err(RecvTimeoutError::Timeout) => {
                let _ = self.child.kill();
                let _ = self.child.wait();
                Reply::Timeout
            }
            Err(RecvTimeoutError::Disconnected) => Reply::Died(self.reap()),
        }
    }

    fn reap(&mut self) -> String {
        match self.child.wait() {
            Ok(st) => {
                #[cfg(unix)]
                {
                    use std::os::unix::process::ExitStatusExt;
                    if let Some(sig) = st.signal() {
                        return format!("signal {sig}");
                    }
                }
                format!("exit {}", st.code().unwrap_or(-1))
            }
            Err(e) => format!("wait failed {e}"),
        }
    }
}

impl Drop for WorkerProc {
    fn drop(&mut self) {
        let _ = self.child.kill();
        let _ = self.child.wait();
    }
}

/// Executes one case in a worker, applying crash / hang confirmation rules.
fn exec_confirmed<P: Property>(p: &P, tier: Tier, w: &mut Option<WorkerProc>, case_json: &str) -> Outcome {
    let timeout = Duration::from_secs_f64(p.timeout_s());
    if w.is_none() {
        *w = Some(WorkerProc::spawn(p.id(), tier));
    }
    let r = w.as_mut().unwrap().exec(case_json, timeout);
    match r {
        Reply::Out(o) => o,
        Reply::Died(how) => {
            // confirm in a fresh worker before calling it anything
            *w = Some(WorkerProc::spawn(p.id(), tier));
            let r2 = w.as_mut().unwrap().exec(case_json, timeout);
            match r2 {
                Reply::Died(how2) => {
                    *w = None;
                    match p.abort_policy() {
                        Policy::Fail => Outcome::fail(
                            format!("abort:{how2}"),
                            json!({"first": how, "second": how2, "note": "worker process died twice on this case (fresh process each time)"}),
                        ),
                        Policy::Discard => Outcome::discard("abort"),
                        Policy::Inconclusive => Outcome::inconclusive("abort"),
                    }
                }
                Reply::Out(o) => {
                    if o.status == Status::Fail {
                        o
                    } else {
                        let mut o2 = Outcome::inconclusive("died-once");
                        o2.detail = json!({"first": how});
                        o2
                    }
                }
                Reply::Timeout => {
                    *w = None;
                    Outcome::inconclusive("died-then-timeout")
                }
            }
        }
        Reply::Timeout => {
            *w = None;
            if p.hang_policy() != Policy::Fail {
                return match p.hang_policy() {
                    Policy::Discard => Outcome::discard("timeout"),
                    _ => Outcome::inconclusive("timeout"),
                };
            }
            // termination property: two fresh re-runs at 4x the limit
            for _ in 0..2 {
                let mut fresh = WorkerProc::spawn(p.id(), tier);
                match fresh.exec(case_json, timeout * 4) {
                    Reply::Timeout => {}
                    Reply::Out(o) if o.status == Status::Fail => return o,
                    _ => return Outcome::inconclusive("timeout-not-confirmed"),
                }
            }
            Outcome::fail(
                "hang",
                json!({"note": format!("exceeded {}s, then {}s twice in fresh processes", p.timeout_s(), p.timeout_s()*4.0)}),
            )
        }
    }
}

// ------------------------------------------------------------------------------------------
// driver

#[derive(Serialize, Deserialize)]
struct ReplayFile {
    property: String,
    signature: String,
    case: Value,
    #[serde(default)]
    detail: Value,
    #[serde(default)]
    rendered: Value,
    #[serde(default)]
    seed: u64,
    #[serde(default)]
    note: String,
}

struct Stats {
    evaluations: u64,
    cases: u64,
    nontrivial: HashSet<u64>,
    classes: BTreeMap<String, u64>,
    discarded: u64,
    inconclusive: u64,
    known_hits: BTreeMap<String, u64>,
    samples: Vec<Value>,
    inconclusive_samples: Vec<Value>,
}

fn write_replay<P: Property>(p: &P, case: &P::Case, o: &Outcome, seed: u64, note: &str) -> String {
    let dir = verif_root().join("replays").join(p.id());
    let _ = std::fs::create_dir_all(&dir);
    let cj = serde_json::to_value(case).unwrap();
    let h = hash_str(&serde_json::to_string(&cj).unwrap());
    let path = dir.join(format!("viol-{h:016x}.json"));
    let rf = ReplayFile {
        property: p.id().to_string(),
        signature: o.sig.clone(),
        case: cj,
        detail: o.detail.clone(),
        rendered: p.render(case),
        seed,
        note: note.to_string(),
    };
    let _ = std::fs::write(&path, serde_json::to_string_pretty(&rf).unwrap());
    path.to_string_lossy().to_string()
}

fn run_one<P: Property>(p: &P, tier: Tier, w: &mut Option<WorkerProc>, case: &P::Case) -> Outcome {
    match p.mode() {
        Mode::InProcess => run_guarded(p, case),
        Mode::Workers => {
            let cj = serde_json::to_string(case).unwrap();
            exec_confirmed(p, tier, w, &cj)
        }
    }
}

fn load_replay<P: Property>(path: &str) -> Result<(ReplayFile, P::Case), String> {
    let full = if std::path::Path::new(path).is_absolute() {
        std::path::PathBuf::from(path)
    } else {
        verif_root().join(path)
    };
    let s = std::fs::read_to_string(&full).map_err(|e| format!("{}: {e}", full.display()))?;
    let rf: ReplayFile = serde_json::from_str(&s).map_err(|e| format!("{}: {e}", full.display()))?;
    let case: P::Case = serde_json::from_value(rf.case.clone()).map_err(|e| format!("{}: case: {e}", full.display()))?;
    Ok((rf, case))
}

pub fn drive_main<P: Property>(p: &P, args: &Args) -> i32 {
    panics::install();
    if args.worker {
        worker_loop(p);
        return 0;
    }
    let t0 = Instant::now();
    let id = p.id();
    let known_all = known::load().for_property(id);
    let known_sigs: BTreeMap<String, Finding> = known_all
        .iter()
        .filter(|f| f.status == "known")
        .map(|f| (f.signature.clone(), f.clone()))
        .collect();
    if p.mode() == Mode::InProcess {
        p.setup();
    }

    // ---- replay mode ---------------------------------------------------------------
    if let Some(path) = &args.replay {
        let (rf, case) = match load_replay::<P>(path) {
            Ok(x) => x,
            Err(e) => {
                eprintln!("replay: {e}");
                return 2;
            }
        };
        let mut w = None;
        let o = run_one(p, args.tier, &mut w, &case);
        println!("replay {} recorded_signature={:?}", path, rf.signature);
        println!("case: {}", crate::util::truncate(&p.render(&case).to_string(), 4000));
        println!("outcome: {}", serde_json::to_string_pretty(&o).unwrap());
        return match o.status {
            Status::Fail => {
                if !args.strict {
                    if let Some(f) = known_sigs.get(&o.sig) {
                        println!("KNOWN-FINDING: property={id} {}", f.what);
                        return 0;
                    }
                }
                println!("VIOLATION property={id} replay={path}");
                1
            }
            Status::Inconclusive => 2,
            _ => 0,
        };
    }

    // ---- generation ----------------------------------------------------------------
    let mut stats = Stats {
        evaluations: 0,
        cases: 0,
        nontrivial: HashSet::new(),
        classes: BTreeMap::new(),
        discarded: 0,
        inconclusive: 0,
        known_hits: BTreeMap::new(),
        samples: vec![],
        inconclusive_samples: vec![],
    };
    let mut violations: Vec<(String, String)> = vec![]; // (sig, replay path)
    let mut seen_viol_sigs: HashSet<String> = HashSet::new();

    let n_cases = args.cases_override.unwrap_or_else(|| p.cases(args.tier));
    let strat = p.strategy(args.tier);
    let mut runner = TestRunner::new_with_rng(
        Config {
            failure_persistence: None,
            ..Config::default()
        },
        rng_for(args.seed, id),
    );
    let jobs = match p.mode() {
        Mode::InProcess => 1,
        Mode::Workers => args.jobs.max(1),
    };
    let mut shrink_worker: Option<WorkerProc> = None;
    // developer knob: how many distinct violations to collect before stopping
    let max_viol: usize = std::env::var("VERIF_MAX_VIOL").ok().and_then(|s| s.parse().ok()).unwrap_or(3);

    // regression replays for fixed findings and pinned replays for known findings
    let mut known_lines: Vec<String> = vec![];
    for f in &known_all {
        let Some(rp) = &f.replay else { continue };
        match load_replay::<P>(rp) {
            Ok((_rf, case)) => {
                let o = run_one(p, args.tier, &mut shrink_worker, &case);
                stats.evaluations += o.evals.max(1);
                stats.cases += 1;
                if o.status == Status::Fail {
                    if f.status == "known" && (o.sig == f.signature) {
                        known_lines.push(format!("KNOWN-FINDING: property={id} {}", f.what));
                        *stats.known_hits.entry(o.sig.clone()).or_insert(0) += 1;
                    } else if known_sigs.contains_key(&o.sig) && o.sig != f.signature {
                        // the pinned input (of a known or fixed entry) runs into another listed finding
                        *stats.known_hits.entry(o.sig.clone()).or_insert(0) += 1;
                    } else {
                        // a fixed finding came back, or a pinned replay now fails differently
                        if seen_viol_sigs.insert(o.sig.clone()) {
                            let path = write_replay(p, &case, &o, args.seed, &format!("regression of {} entry {:?}", f.status, f.signature));
                            violations.push((o.sig.clone(), path));
                        }
                    }
                }
            }
            Err(e) => {
                eprintln!("known_findings replay unreadable: {e}");
                return 2;
            }
        }
    }

    let fixed = p.fixed_cases(args.tier);
    let total = fixed.len() + n_cases;
    let batch_size = 4096usize;
    let mut produced = 0usize;
    let mut fixed_iter = fixed.into_iter();
    let mut stop = false;
    let mut pool: Vec<Option<WorkerProc>> = (0..jobs).map(|_| None).collect();

    while produced < total && !stop {
        // build a batch: (case, optional tree)
        let mut batch: Vec<(P::Case, Option<Box<dyn ValueTree<Value = P::Case>>>)> = vec![];
        while batch.len() < batch_size && produced < total {
            if let Some(c) = fixed_iter.next() {
                batch.push((c, None));
            } else {
                let tree = strat.new_tree(&mut runner).expect("strategy failed to generate");
                let c = tree.current();
                batch.push((c, Some(Box::new(tree))));
            }
            produced += 1;
        }
        // run the batch
        let outcomes: Vec<Outcome> = match p.mode() {
            Mode::InProcess => batch.iter().map(|(c, _)| run_guarded(p, c)).collect(),
            Mode::Workers => {
                let queue: Arc<Mutex<VecDeque<(usize, String)>>> = Arc::new(Mutex::new(
                    batch
                        .iter()
                        .enumerate()
                        .map(|(i, (c, _))| (i, serde_json::to_string(c).unwrap()))
                        .collect(),
                ));
                let results: Arc<Mutex<Vec<Option<Outcome>>>> = Arc::new(Mutex::new(vec![None; batch.len()]));
                std::thread::scope(|s| {
                    for slot in pool.iter_mut() {
                        let queue = queue.clone();
                        let results = results.clone();
                        s.spawn(move || loop {
                            let job = queue.lock().unwrap().pop_front();
                            let Some((i, cj)) = job else { break };
                            let o = exec_confirmed(p, args.tier, slot, &cj);
                            results.lock().unwrap()[i] = Some(o);
                        });
                    }
                });
                let r = std::mem::take(&mut *results.lock().unwrap());
                r.into_iter().map(|o| o.unwrap_or_else(|| Outcome::inconclusive("lost"))).collect()
            }
        };
        // account
        for ((case, tree), o) in batch.into_iter().zip(outcomes.into_iter()) {
            stats.cases += 1;
            stats.evaluations += o.evals.max(1);
            for c in &o.classes {
                *stats.classes.entry(c.clone()).or_insert(0) += 1;
            }
            match o.status {
                Status::Discard => {
                    stats.discarded += 1;
                    continue;
                }
                Status::Inconclusive => {
                    stats.inconclusive += 1;
                    if stats.inconclusive_samples.len() < 3 {
                        stats.inconclusive_samples.push(json!({"case": p.render(&case), "why": o.classes, "detail": o.detail}));
                    }
                    continue;
                }
                _ => {}
            }
            if o.nontrivial || !o.sub_nontrivial.is_empty() {
                if o.sub_nontrivial.is_empty() {
                    let h = hash_str(&serde_json::to_string(&case).unwrap());
                    if stats.nontrivial.insert(h) && stats.samples.len() < 6 && o.status == Status::Pass {
                        stats.samples.push(p.render(&case));
                    }
                } else {
                    let before = stats.nontrivial.len();
                    for h in &o.sub_nontrivial {
                        stats.nontrivial.insert(*h);
                    }
                    if stats.nontrivial.len() > before && stats.samples.len() < 6 && o.status == Status::Pass {
                        stats.samples.push(p.render(&case));
                    }
                }
            }
            if o.status == Status::Fail {
                if known_sigs.contains_key(&o.sig) {
                    *stats.known_hits.entry(o.sig.clone()).or_insert(0) += 1;
                    continue;
                }
                if seen_viol_sigs.contains(&o.sig) || violations.len() >= max_viol.max(5) {
                    continue;
                }
                // shrink (only generated cases have a tree)
                let (best_case, best_o) = match tree {
                    Some(mut t) => shrink(p, args.tier, &mut shrink_worker, &mut *t, case.clone(), o.clone(), &known_sigs),
                    None => (case.clone(), o.clone()),
                };
                if known_sigs.contains_key(&best_o.sig) {
                    *stats.known_hits.entry(best_o.sig.clone()).or_insert(0) += 1;
                    continue;
                }
                if seen_viol_sigs.contains(&best_o.sig) {
                    seen_viol_sigs.insert(o.sig.clone());
                    continue;
                }
                seen_viol_sigs.insert(o.sig.clone());
                seen_viol_sigs.insert(best_o.sig.clone());
                let path = write_replay(p, &best_case, &best_o, args.seed, "shrunk failing case");
                eprintln!("violation: sig={} detail={}", best_o.sig, crate::util::truncate(&best_o.detail.to_string(), 1500));
                violations.push((best_o.sig.clone(), path));
                if violations.len() >= max_viol {
                    stop = true;
                }
            }
        }
    }
    drop(pool);
    drop(shrink_worker);
    crate::pyexec::shutdown();

    // ---- evidence ------------------------------------------------------------------
    let wall = t0.elapsed().as_secs_f64();
    let mut coverage = json!({
        "evaluations": stats.evaluations,
        "cases": stats.cases,
        "distinct_nontrivial": stats.nontrivial.len(),
        "rule": p.rule(),
        "samples": stats.samples,
        "classes": stats.classes,
        "discarded": stats.discarded,
        "inconclusive": stats.inconclusive,
        "inconclusive_samples": stats.inconclusive_samples,
        "known_hits": stats.known_hits,
        "exhaustive": p.exhaustive(args.tier),
    });
    if let Value::Object(extra) = p.extra_coverage() {
        for (k, v) in extra {
            coverage[k] = v;
        }
    }
    if coverage["samples"].as_array().map(|a| a.is_empty()).unwrap_or(true) {
        coverage["samples"] = json!(["<no non-trivial passing case in this run>"]);
    }
    let ev = json!({
        "property_id": id,
        "tier": args.tier.name(),
        "seed": args.seed as i64,
        "level": p.level(),
        "coverage": coverage,
        "assumptions": p.assumptions(),
        "wall_s": wall,
        "violations": violations.len(),
    });
    let evdir = verif_root().join("evidence");
    let _ = std::fs::create_dir_all(&evdir);
    let ev_name = std::env::var("VERIF_EVIDENCE_AS").unwrap_or_else(|_| id.to_string());
    let _ = std::fs::write(evdir.join(format!("{ev_name}.json")), serde_json::to_string_pretty(&ev).unwrap());

    println!(
        "{id}: tier={} seed={} cases={} evaluations={} distinct_nontrivial={} discarded={} inconclusive={} known_hits={} wall={:.1}s",
        args.tier.name(), args.seed, stats.cases, stats.evaluations, stats.nontrivial.len(), stats.discarded,
        stats.inconclusive, stats.known_hits.values().sum::<u64>(), wall
    );
    for l in &known_lines {
        println!("{l}");
    }
    if !violations.is_empty() {
        for (_sig, path) in &violations {
            println!("VIOLATION property={id} replay={path}");
        }
        return 1;
    }
    if stats.cases > 0 && stats.inconclusive * 20 > stats.cases {
        eprintln!("{id}: more than 5% of the cases were inconclusive -> exit 2");
        return 2;
    }
    0
}

fn shrink<P: Property>(
    p: &P,
    tier: Tier,
    w: &mut Option<WorkerProc>,
    tree: &mut dyn ValueTree<Value = P::Case>,
    case: P::Case,
    o: Outcome,
    known: &BTreeMap<String, Finding>,
) -> (P::Case, Outcome) {
    let mut best = (case, o);
    let mut budget = p.shrink_budget();
    let t0 = Instant::now();
    'outer: while budget > 0 && t0.elapsed() < Duration::from_secs(600) {
        if !tree.simplify() {
            break;
        }
        loop {
            if budget == 0 {
                break 'outer;
            }
            budget -= 1;
            let c = tree.current();
            let o = run_one(p, tier, w, &c);
            // keep shrinking towards a failure that is *not* a known finding
            if o.status == Status::Fail && !known.contains_key(&o.sig) {
                best = (c, o);
                break;
            } else if !tree.complicate() {
                break 'outer;
            }
        }
    }
    best
}
