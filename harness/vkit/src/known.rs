//! known_findings.json: committed list of genuine defects that are recorded (status
//! "known") or repaired (status "fixed").  Never written at run time.
use serde::{Deserialize, Serialize};

#[derive(Serialize, Deserialize, Clone, Debug)]
pub struct Finding {
    pub property: String,
    /// "known" or "fixed"
    pub status: String,
    /// exact failure signature as computed by the check from the (shrunk) failing case
    pub signature: String,
    /// human description: what fails
    pub what: String,
    /// replay file (relative to /verif) that exercises exactly this finding
    #[serde(default)]
    pub replay: Option<String>,
    /// commit of the `fix:` in /repo for status "fixed"
    #[serde(default)]
    pub commit: Option<String>,
}

#[derive(Serialize, Deserialize, Clone, Debug, Default)]
pub struct KnownFile {
    pub findings: Vec<Finding>,
}

pub fn load() -> KnownFile {
    let p = crate::util::verif_root().join("known_findings.json");
    match std::fs::read_to_string(&p) {
        Ok(s) => serde_json::from_str(&s).unwrap_or_else(|e| {
            eprintln!("known_findings.json does not parse: {e}");
            std::process::exit(2);
        }),
        Err(_) => KnownFile::default(),
    }
}

impl KnownFile {
    pub fn for_property(&self, id: &str) -> Vec<Finding> {
        self.findings
            .iter()
            .filter(|f| f.property == id)
            .cloned()
            .collect()
    }
}
