//! Panic capture: a process-wide hook records `file:line` and message of every panic
//! (in any thread); `catch` runs a closure under `catch_unwind` and returns the record.
use std::panic::{self, AssertUnwindSafe};
use std::sync::{Mutex, Once};

#[derive(Clone, Debug, Default)]
pub struct PanicInfo {
    pub loc: String,
    pub msg: String,
    /// "erg" (the code under test), "harness" or "unknown"
    pub origin: String,
}

/// Whose code panicked: decided from the panic location, and for locations inside the
/// standard library / third-party crates from the innermost named frame of a backtrace.
fn origin_of(loc: &str) -> String {
    let l = loc.replace('\\', "/");
    let repo = crate::util::repo_root().to_string_lossy().to_string();
    if l.contains("/verif/") || l.starts_with("src/props") || l.starts_with("src/ergx") || l.starts_with("src/gen") || l.starts_with("src/main") || l.starts_with("src/engine") {
        return "harness".into();
    }
    if l.starts_with(&repo) || l.contains("/crates/erg_") || l.contains("/crates/els/") || l.starts_with("crates/") {
        return "erg".into();
    }
    let bt = std::backtrace::Backtrace::force_capture().to_string();
    for line in bt.lines() {
        let t = line.trim();
        if t.contains("vkit::panics") || t.contains("std::panic") || t.contains("core::panic") || t.contains("rust_begin_unwind") {
            continue;
        }
        if t.contains("erg_parser::") || t.contains("erg_compiler::") || t.contains("erg_common::") || t.contains("els::") || t.contains("erg::") || t.contains("erg_linter::") {
            return "erg".into();
        }
        if t.contains("vcheck::") || t.contains("vkit::") || t.contains("vlsp::") {
            return "harness".into();
        }
    }
    "unknown".into()
}

static LAST: Mutex<Vec<PanicInfo>> = Mutex::new(Vec::new());
static INIT: Once = Once::new();

pub fn install() {
    INIT.call_once(|| {
        panic::set_hook(Box::new(|info| {
            let loc = info
                .location()
                .map(|l| format!("{}:{}", l.file(), l.line()))
                .unwrap_or_else(|| "?".into());
            let msg = if let Some(s) = info.payload().downcast_ref::<&str>() {
                s.to_string()
            } else if let Some(s) = info.payload().downcast_ref::<String>() {
                s.clone()
            } else {
                "<non-string panic>".into()
            };
            let origin = origin_of(&loc);
            if let Ok(mut g) = LAST.lock() {
                g.push(PanicInfo { loc, msg, origin });
            }
        }));
    });
}

pub fn clear() {
    if let Ok(mut g) = LAST.lock() {
        g.clear();
    }
}

/// All panics recorded (any thread) since the last `clear`.
pub fn recorded() -> Vec<PanicInfo> {
    LAST.lock().map(|g| g.clone()).unwrap_or_default()
}

/// Runs `f`; `Err` carries the first panic recorded while it ran.
pub fn catch<T>(f: impl FnOnce() -> T) -> Result<T, PanicInfo> {
    install();
    clear();
    match panic::catch_unwind(AssertUnwindSafe(f)) {
        Ok(v) => Ok(v),
        Err(_) => Err(recorded().into_iter().next().unwrap_or_default()),
    }
}

/// Normalises a panic location so that it is stable across checkouts
/// (`/repo/crates/erg_parser/lex.rs:12` -> `erg_parser/lex.rs:12`).
pub fn norm_loc(loc: &str) -> String {
    let l = loc.replace('\\', "/");
    let repo = format!("{}/", crate::util::repo_root().to_string_lossy());
    if let Some(i) = l.find("crates/") {
        l[i + 7..].to_string()
    } else if let Some(rest) = l.strip_prefix(&repo) {
        rest.to_string()
    } else if let Some(i) = l.find("/repo/") {
        l[i + 6..].to_string()
    } else {
        l
    }
}

/// Blanks digits and generated names in a message so one root cause has one signature.
pub fn norm_msg(msg: &str) -> String {
    let mut out = String::new();
    let mut prev_digit = false;
    for ch in msg.chars().take(160) {
        if ch.is_ascii_digit() {
            if !prev_digit {
                out.push('N');
            }
            prev_digit = true;
        } else {
            prev_digit = false;
            out.push(ch);
        }
    }
    out
}
