//! Panic capture: a process-wide hook records `file:line` and message of every panic
//! (in any thread); `catch` runs a closure under `catch_unwind` and returns the record.
use std::panic::{self, AssertUnwindSafe};
use std::sync::{Mutex, Once};

#[derive(Clone, Debug, Default)]
pub struct PanicInfo {
    pub loc: String,
    pub msg: String,
}

static LAST: Mutex<Vec<PanicInfo>> = Mutex::new(Vec::new());
static INIT: Once = Once::new();

pub fn install() {
    INIT.call_once(|| {
        panic::set_hook(Box::new(|info| {
            let loc = info
                .location()
                .map(|l| format!("{}:{}", l.file(), l.line()))
                .unwrap_or_else(|| "?".into());
            let msg = if let Some(s) = info.payload().downcast_ref::<&str>() {
                s.to_string()
            } else if let Some(s) = info.payload().downcast_ref::<String>() {
                s.clone()
            } else {
                "<non-string panic>".into()
            };
            if let Ok(mut g) = LAST.lock() {
                g.push(PanicInfo { loc, msg });
            }
        }));
    });
}

pub fn clear() {
    if let Ok(mut g) = LAST.lock() {
        g.clear();
    }
}

/// All panics recorded (any thread) since the last `clear`.
pub fn recorded() -> Vec<PanicInfo> {
    LAST.lock().map(|g| g.clone()).unwrap_or_default()
}

/// Runs `f`; `Err` carries the first panic recorded while it ran.
pub fn catch<T>(f: impl FnOnce() -> T) -> Result<T, PanicInfo> {
    install();
    clear();
    match panic::catch_unwind(AssertUnwindSafe(f)) {
        Ok(v) => Ok(v),
        Err(_) => Err(recorded().into_iter().next().unwrap_or_default()),
    }
}

/// Normalises a panic location so that it is stable across checkouts
/// (`/repo/crates/erg_parser/lex.rs:12` -> `erg_parser/lex.rs:12`).
pub fn norm_loc(loc: &str) -> String {
    let l = loc.replace('\\', "/");
    if let Some(i) = l.find("crates/") {
        l[i + 7..].to_string()
    } else if let Some(i) = l.find("/repo/") {
        l[i + 6..].to_string()
    } else {
        l
    }
}

/// Blanks digits and generated names in a message so one root cause has one signature.
pub fn norm_msg(msg: &str) -> String {
    let mut out = String::new();
    let mut prev_digit = false;
    for ch in msg.chars().take(160) {
        if ch.is_ascii_digit() {
            if !prev_digit {
                out.push('N');
            }
            prev_digit = true;
        } else {
            prev_digit = false;
            out.push(ch);
        }
    }
    out
}
