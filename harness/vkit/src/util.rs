use std::hash::{Hash, Hasher};

/// FNV-1a, stable across runs and Rust versions (unlike `DefaultHasher` guarantees).
pub struct Fnv(pub u64);
impl Default for Fnv {
    fn default() -> Self {
        Fnv(0xcbf29ce484222325)
    }
}
impl Hasher for Fnv {
    fn finish(&self) -> u64 {
        self.0
    }
    fn write(&mut self, bytes: &[u8]) {
        for b in bytes {
            self.0 ^= *b as u64;
            self.0 = self.0.wrapping_mul(0x100000001b3);
        }
    }
}
pub fn hash_str(s: &str) -> u64 {
    let mut h = Fnv::default();
    s.hash(&mut h);
    h.finish()
}
pub fn hash_bytes(s: &[u8]) -> u64 {
    let mut h = Fnv::default();
    h.write(s);
    h.finish()
}

pub fn verif_root() -> std::path::PathBuf {
    std::env::var("VERIF_ROOT")
        .map(std::path::PathBuf::from)
        .unwrap_or_else(|_| std::path::PathBuf::from("/verif"))
}

pub fn repo_root() -> std::path::PathBuf {
    std::env::var("VERIF_REPO")
        .map(std::path::PathBuf::from)
        .unwrap_or_else(|_| std::path::PathBuf::from("/repo"))
}

/// Scratch directory for this process (under /verif/target/work, never /tmp).
pub fn work_dir() -> std::path::PathBuf {
    // ./check gives every run its own parent directory, so that concurrent runs do not
    // clean up each other's files
    let parent = std::env::var("VERIF_WORK_PARENT").map(std::path::PathBuf::from).unwrap_or_else(|_| verif_root().join("target").join("work"));
    let d = parent.join(format!("p{}", std::process::id()));
    let _ = std::fs::create_dir_all(&d);
    d
}

/// Monotone index mapping (so that shrinking a u16/u32 towards 0 shrinks the index).
pub fn idx(sel: u32, len: usize) -> usize {
    if len == 0 {
        return 0;
    }
    ((sel as u64 * len as u64) >> 32) as usize
}

pub fn truncate(s: &str, n: usize) -> String {
    if s.chars().count() <= n {
        s.to_string()
    } else {
        let t: String = s.chars().take(n).collect();
        format!("{t}…")
    }
}
