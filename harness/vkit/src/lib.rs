//! vkit: the property-engine shared by all /verif checks.
//!
//! A check is a `Property`: a proptest strategy producing serialisable cases plus a `run`
//! function (the oracle) returning an `Outcome`.  `engine::drive` owns seeding, parallel
//! execution (in-process or in crash-isolated worker processes), shrinking through the
//! proptest `ValueTree`, known-finding matching, replay files and evidence.
pub mod engine;
pub mod known;
pub mod panics;
pub mod pyexec;
pub mod util;

pub use engine::{drive_main, Mode, Outcome, Property, Status, Tier};
