#!/bin/bash
# one line per seedrun log
for f in /tmp/seed/log-*.txt; do
  n=$(basename $f .txt | sed 's/^log-//')
  dw=$(grep -o "DEMO_WITH_PATCH rc=[0-9]*" $f | tail -1 | sed 's/.*rc=//')
  dwo=$(grep -o "DEMO_WITHOUT_PATCH rc=[0-9]*" $f | tail -1 | sed 's/.*rc=//')
  tf=$(grep -c "^test result: FAILED" $f); tp=$(grep "^test result: ok" $f | sed 's/.*ok\. \([0-9]*\) passed.*/\1/' | paste -sd+ | bc)
  chk=$(grep -o "CHECK [A-Za-z0-9]* rc=[0-9]*" $f | sed 's/CHECK //' | paste -sd' ')
  viol=$(grep -c "^VIOLATION" $f)
  done_=$(grep -c SEEDRUN-DONE $f)
  echo "$n demo_with=$dw demo_without=$dwo tests_pass=$tp tests_failed_bins=$tf checks=[$chk] violations=$viol done=$done_"
done
