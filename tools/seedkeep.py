#!/usr/bin/env python3
"""seedkeep.py <ID> <mutant-dir> <name> <caught-by or 'missed'> [note]
Archives a confirmed seeded change as /verif/seeded/<name>/ (patch.diff, demonstration, meta.json)."""
import json, os, shutil, sys, re
ROOT = os.path.dirname(os.path.dirname(os.path.abspath(__file__)))
pid, mdir, name, caught = sys.argv[1:5]
note = " ".join(sys.argv[5:])
dst = os.path.join(ROOT, "seeded", name)
os.makedirs(dst, exist_ok=True)
for f in os.listdir(mdir):
    if f == "meta.json":
        continue
    src = os.path.join(mdir, f)
    if os.path.isfile(src) and os.path.getsize(src) < 2_000_000:
        shutil.copy(src, os.path.join(dst, f))
am = json.load(open(os.path.join(mdir, "meta.json")))
log = f"/tmp/seed/log-{pid}-{os.path.basename(mdir.rstrip('/'))}.txt"
ran = []
if os.path.exists(log):
    t = open(log, errors="replace").read()
    for pat in (r"DEMO_WITH_PATCH rc=\d+", r"DEMO_WITHOUT_PATCH rc=\d+", r"CHECK \w+ rc=\d+"):
        ran += sorted(set(re.findall(pat, t)))
    viol = sorted(set(re.findall(r"^VIOLATION property=\w+", t, re.M)))
    sigs = sorted(set(re.findall(r"^violation: sig=(.{0,160})", t, re.M)))[:4]
    tests_ok = sum(int(x) for x in re.findall(r"^test result: ok\. (\d+) passed", t, re.M))
    tests_failed = len(re.findall(r"^test result: FAILED", t, re.M))
else:
    viol, sigs, tests_ok, tests_failed = [], [], None, None
meta = {
    "property": pid,
    "summary": am.get("summary"),
    "needs_to_manifest": am.get("needs"),
    "author": "independent sub-agent given only the property text and a scratch worktree",
    "confirmed_by_me": {
        "where": f"scratch worktree /tmp/wt-{pid} (removed afterwards), tools/seedrun.sh",
        "repository_tests_with_patch": f"cargo test --workspace --no-fail-fast --offline: {tests_ok} passed, {tests_failed} failing test binaries",
        "observations": ran,
    },
    "checks_run_against_it": f"./check {pid} --tier quick (scratch copy of /verif built against the patched worktree)",
    "caught_by": caught,
    "violation_signatures": sigs,
    "note": note,
}
json.dump(meta, open(os.path.join(dst, "meta.json"), "w"), indent=1, ensure_ascii=False)
print("kept", dst, "caught_by=", caught)
