#!/usr/bin/env python3
"""Regenerates the tables of DESIGN.md section "As built" (between the GENERATED markers)
from known_findings.json, seeded/*/meta.json and MANIFEST.json."""
import json, os, glob, re
ROOT = os.path.dirname(os.path.dirname(os.path.abspath(__file__)))
k = json.load(open(os.path.join(ROOT, "known_findings.json")))["findings"]
m = json.load(open(os.path.join(ROOT, "MANIFEST.json")))
out = []
out.append("### A.4 Known findings (genuine defects recorded, not repaired) — from known_findings.json\n")
out.append("| property | signature (what the check matches) | what fails |\n|---|---|---|")
for e in k:
    if e["status"] == "known":
        out.append("| %s | %s | %s |" % (e["property"], e["signature"].replace("|", "\\|")[:160], e.get("what", "").replace("|", "\\|").replace("\n", " ")[:420]))
out.append("\n### A.5 Genuine defects repaired in /repo (`fix:` commits) — from known_findings.json\n")
out.append("| property | commit | what failed |\n|---|---|---|")
seen = set()
for e in k:
    if e["status"] == "fixed":
        w = re.sub(r"^fixed: property=\w+ \w+ ", "", e.get("what", "")).replace("|", "\\|").replace("\n", " ")
        key = (e["property"], e.get("commit"), w[:60])
        if key in seen:
            continue
        seen.add(key)
        out.append("| %s | %s | %s |" % (e["property"], (e.get("commit") or "")[:8], w[:300]))
out.append("\n### A.6 Seeded changes (written by independent sub-agents from the property text alone) and the checks that catch them — from seeded/*/meta.json\n")
out.append("| seeded change | property | what it needs to manifest | caught by | note |\n|---|---|---|---|---|")
for d in sorted(glob.glob(os.path.join(ROOT, "seeded", "*", "meta.json"))):
    s = json.load(open(d))
    out.append("| %s | %s | %s | %s | %s |" % (os.path.basename(os.path.dirname(d)), s.get("property"), str(s.get("needs_to_manifest") or "")[:260].replace("|", "\\|").replace("\n", " "), s.get("caught_by"), (s.get("note") or "").replace("|", "\\|")[:260]))
out.append("\n### A.7 Claimed checks and not_applicable — from MANIFEST.json\n")
out.append("| property | engine | technique |\n|---|---|---|")
for c in m["checks"]:
    out.append("| %s | %s | %s |" % (c["property_id"], c["engine"], c["technique"][:220].replace("|", "\\|")))
for n in m["not_applicable"]:
    out.append("| %s | — | not claimed: %s |" % (n["property_id"], n["reason"].replace("|", "\\|")))
text = "\n".join(out) + "\n"
p = os.path.join(ROOT, "DESIGN.md")
s = open(p).read()
b, e = "<!-- GENERATED:BEGIN -->", "<!-- GENERATED:END -->"
assert b in s and e in s
s = s[: s.index(b) + len(b)] + "\n" + text + s[s.index(e):]
open(p, "w").write(s)
print("DESIGN.md tables regenerated:", len(out), "lines")
