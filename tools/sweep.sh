#!/bin/bash
# sweep.sh <seed> [ids...]: runs the quick tier of every claimed check under one seed (developer tool)
S=$1; shift
IDS="${@:-$(python3 -c "import json;print(' '.join(c['property_id'] for c in json.load(open('/verif/MANIFEST.json'))['checks']))")}"
for id in $IDS; do
  out=$(cd /verif && VERIF_SEED=$S VERIF_EVIDENCE_AS=/tmp/sweep-ev-$id-$S.json timeout 3000 ./check $id --tier quick 2>&1); rc=$?
  echo "seed=$S $id rc=$rc $(echo "$out" | grep -E "^$id:|^VIOLATION|^violation" | sed -E 's/detail=.*//' | tr '\n' ' ' | cut -c1-400)"
done
