#!/bin/bash
# prints the rewritten source of a C10 replay (debug helper)
/verif/target/release/vcheck dbg c10src "$1"
