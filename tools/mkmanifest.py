#!/usr/bin/env python3
"""Regenerates /verif/MANIFEST.json from the table below (kept in one place so the
manifest stays valid while checks are added)."""
import json, os, sys
ROOT = os.path.dirname(os.path.dirname(os.path.abspath(__file__)))

CHECKS = {}
def check(pid, technique, text, note, design_ref, engine="vcheck"):
    CHECKS[pid] = dict(technique=technique, text=text, note=note, design_ref=design_ref, engine=engine)

check("C21", "stateful model-based property test (proptest op sequences vs BTreeMap reference graph)",
      "Random operation histories (<=40 ops over 8 paths) are applied in lock-step to ModuleGraph and to a plain reference graph; every query is compared for all path pairs after every step, refused edges are checked against model reachability, sort/tsort outputs are validated as dependency orders. Exploration, not proof: it shows agreement on the generated histories (20k quick / 500k thorough).",
      "Trusts the reference model (30 lines of BTreeMap code). Paths are non-existent files; rename targets are unused paths; sort is issued only when all dependency targets are registered.",
      "DESIGN.md §3 C21")
check("C31", "property test with lexical reference model + exhaustive enumeration of short paths",
      "All paths of <=5 (quick) / <=7 (thorough) components over {., .., a, b, c, a.er} are enumerated and grouped by NormalizedPathBuf; every group must be one file under a lexical reference resolution; random pairs up to 8 components with duplicate separators and trailing slashes add idempotence and leading-'..' preservation.",
      "Lexical reading of 'same file' (no symlinks); case-sensitive platform.",
      "DESIGN.md §3 C31")

check("C32", "property test: constructor recipes vs window evaluation of the resulting Predicate",
      "Predicate trees (depth<=4, constants in [-8,8]) are built only through Predicate::{eq,ne,ge,le,gt,lt,and,or,invert}; the value erg returns is evaluated by an independent evaluator on every integer of [-11,11], which is an exact decision procedure for one-variable order/equality predicates, and compared with the set computed from the construction recipe.",
      "Trusts my 20-line evaluator of Predicate values; only Int atoms over one variable.",
      "DESIGN.md §3 C32")
check("C11", "property test against a reference precedence-climbing parser",
      "Operator expressions are generated as token chains (all binary operators of the documented table, prefix + - ~, member access, method calls, parentheses, three spacing styles, nesting depth<=3) and parsed by erg's Parser and by a reference precedence-climbing parser written from the table in the property statement; the trees must be identical.",
      "The reference parser encodes the statement: all binary operators left-associative, a prefix operator's operand extends over tighter-binding operators only, `-digit` in prefix position is a literal. Spacings whose prefix/infix reading is not documented (`x -1`) are not generated.",
      "DESIGN.md §3 C11")
check("C08", "property test (weighted alphabet + corpus mutation + lexeme-built sources with known positions), worker processes with watchdog",
      "Totality: arbitrary texts and mutated corpus files must lex without panic/hang, Ok streams end with EOF and balance Indent/Dedent, Err carries >=1 error. Positions: sources are built from lexeme lists (identifiers, numbers, operators, strings with every escape, interpolations, multi-line strings, comments, indentation, parentheses) so every token's true (line, column) is known and compared.",
      "Columns are counted in characters. `\\x` escapes are only generated where the lexer documents them (single-line literal before an interpolation). Hangs are judged by the 60 s watchdog + two fresh re-runs.",
      "DESIGN.md §3 C08")

check("C09", "property test (token soup, corpus mutation, nesting ladders) in crash-isolated workers with watchdog",
      "Token soup over an Erg lexeme alphabet, corpus programs truncated/spliced at random points and arbitrary text are parsed and desugared in worker processes on the product's 8 MB stack: no panic, abort or hang, Ok or Err with >=1 error. Nesting ladders for 16 shapes at depths 1..3000: bracket/block nesting <=200 (blocks <=100) must parse cleanly, deeper bracket nesting must be a diagnostic, nothing may kill the process.",
      "Asked of the optimised build (debug frames are several times larger). A worker death is confirmed in a fresh process before it is reported; hangs by the 60 s watchdog + two fresh re-runs at 240 s.",
      "DESIGN.md §3 C09")

check("C10", "metamorphic property test (layout rewrites at lexer token boundaries; blanked-Debug fingerprint of the AST)",
      "Every corpus program that parses is rewritten by 1-8 random layout-preserving rewrites (line comments, inline block comments, blank lines, trailing spaces, backslash continuations, redundant parentheses around an operand) placed at token boundaries from the lexer's own stream; the Debug rendering of the Module with position numbers blanked must be unchanged; the same text parsed twice and in a fresh process must render identically.",
      "The AST's PartialEq is not the oracle (it is position-sensitive for some nodes); rewrites are never placed inside string or doc-comment tokens. Corpus-based: covers the constructs the repository's own .er files use.",
      "DESIGN.md §3 C10")

check("C16", "exhaustive enumeration of the opcode tables and magic numbers against each interpreter's dis/importlib, plus generated jump-address tuples",
      "Every u8 each opcode table maps to a name is judged by the interpreter of every version the table serves (same number in dis.opmap, u8->enum->u8 round-trip, is_jump_op equals hasjrel/hasjabs membership); the magic number of every installed interpreter 3.7-3.12 and every row of CPython's magic history that erg maps must give the right version; jump_abs_addr is compared with the interpreter's jump semantics on generated (version, opcode, index, argument) tuples.",
      "Names a version's interpreter does not have (Erg-reserved pseudo-instructions, neighbouring-version entries of a shared table) are not judged here; whether the compiler writes only existing instructions is observed by C13/C14. One patch release per minor version.",
      "DESIGN.md §3 C16")

check("C27", "exhaustive enumeration of the bundled declarations against the installed interpreters 3.7-3.13 and the typeshed stubs",
      "Every declaration file under lib/pystd is imported through the compiler (`m = pyimport M`); every public entry of the resulting module context, under the Python name code generation would emit (VarInfo.py_name), must be an attribute of importlib.import_module(M) in at least one installed interpreter 3.7-3.13 or be defined in any platform/version branch of M's typeshed stub.",
      "Non-Linux platforms are represented by typeshed only; nested attributes (methods of declared classes) are outside the statement ('top-level declaration') and not checked.",
      "DESIGN.md §3 C27")

check("C04", "differential property test: compile-time value (singleton type) vs compiled program vs CPython on generated constant expressions",
      "Constant expression trees over Nat/Int/Float/Bool literals (negatives, zero divisors, values around 2**31..2**64, float/int mixes) are bound to a constant; the compiler runs in crash-isolated workers (panic/abort = violation); when the checker assigns the constant a singleton type its value must equal both what the compiled program prints and what CPython 3.11 computes for the same expression (floats bit-exact); a compile-time value for an expression that raises at run time is a violation.",
      "`**` only with integer bases and exponents 0-5 (a transcendental float pow has no exact reference); no compile-time value or an ordinary diagnostic counts as 'left to run time / reported'.",
      "DESIGN.md §3 C04")

check("C01", "differential property test: generated typed programs, compiled bytecode vs an independently printed Python program",
      "Programs are built by construction from a proptest choice tape over a typed fragment grammar (bindings, arithmetic incl. // % ** and mixed Float/Int, strings, interpolation, lists, if, functions with default/keyword arguments, lambdas, for!/while!, pattern definitions, assert, exit; literals up to 2**64-1, -2**31, signed zeros, non-ASCII). Every bound variable is printed. The bytecode compiled in-process (3.11, default optimisation) and the reference Python program must produce the same stdout bytes, exception type and exit status; mismatches are confirmed in fresh interpreter processes before being reported.",
      "Speaks for the fragment only; measured acceptance by the checker ~95%. Constructs whose defect is a recorded known finding (abs of a Float; union/interval-typed operands of arithmetic) are left out by construction and counted as excluded:* classes; pinned explicit replays keep those findings visible.",
      "DESIGN.md §3 C01")
check("C12", "differential property test over configurations: the same generated program at opt_level 0-3",
      "Fragment programs whose bindings are not printed automatically (unused private variables, functions, lambdas arise at random) plus effectful definitions (procedures, bindings initialised by procedure calls, by print! as a value, by printing blocks, by raising initialisers) are compiled at opt_level 0,1,2,3 and run; stdout bytes, exception type and exit status must equal level 0's (confirmed in fresh processes).",
      "In-process compilation with cfg.opt_level; an unstable checker verdict between repeated compilations is left to C19.",
      "DESIGN.md §3 C12")

check("C13", "differential property test over configurations: generated programs compiled for and run by each interpreter 3.7-3.11",
      "Fragment programs (plus with! templates over a file object, incl. an exception inside the block) are compiled in-process for targets 3.7, 3.8, 3.9, 3.10, 3.11 and each .pyc is run by the installed interpreter of that version; stdout bytes, exception type and exit status must equal the 3.11 build's (confirmed in fresh processes). For each installed interpreter P, `erg --py-command P run probe.er` must execute under P.",
      "One patch release per minor version; the grammar has no user-defined context managers.",
      "DESIGN.md §3 C13")
check("C14", "property test with an abstract interpreter of the target interpreter's own dis.stack_effect over every emitted code object",
      "Every code object (recursively) of fragment programs and of the repository's import-free .er files that compile is checked, per target 3.7-3.11, by py/validate_code.py running under that interpreter: stack depth never negative and <= co_stacksize on every path (worklist over jumps and 3.11 exception-table handlers), jump targets on instruction boundaries, const/name/local/free indices in range, no unknown opcode, line numbers inside the source for every instruction CPython's own compiler never leaves line-less.",
      "The validator reports nothing on 200 stdlib modules compiled by each CPython 3.7-3.11. Stack analysis is skipped for generator code and, before 3.9, for code with try/finally/with set-up instructions.",
      "DESIGN.md §3 C14")

check("C02", "property test with a validity predicate on the run of generated, checker-accepted programs",
      "Fragment programs with operands biased to negative and mixed-sign values are compiled and run; the uncaught exception must not be TypeError, AttributeError, NameError or UnboundLocalError, nor a value-constraint error raised by a `raise` statement inside Erg's runtime classes (lib/core/_erg_*.py); ZeroDivisionError, IndexError, AssertionError and exit are allowed. Type errors are confirmed in a fresh process.",
      "Same fragment and exclusions as C01; pinned explicit replays keep the known Nat-wrapping findings (Int ** Nat, union-typed left operand) visible.",
      "DESIGN.md §3 C02")
check("C17", "differential property test: transpiled Python script vs compiled bytecode of the same generated program",
      "Programs of a sub-fragment the transpiler handles (bindings, arithmetic, comparisons, strings with quotes/backslashes/braces/newlines/NUL/non-ASCII, lists, list loops, while loops, functions, lambdas, pattern definitions, assert, exit) are transpiled in-process; the script must compile under CPython 3.11 and give the same stdout bytes, exception type and exit status as the bytecode (confirmed in fresh processes).",
      "Range loops, default/keyword parameters and if! statements are left out because of recorded known findings (pinned replays); interpolation and if expressions are left out as well and are NOT analysed by this check; a transpiler panic ('not implemented') or diagnostics count as declined.",
      "DESIGN.md §3 C17")

check("C22", "metamorphic property test: one effectful operation at a generated position in function / procedure / top-level variants of the same body",
      "An effect (procedure call, print!, procedural method, read of an outer mutable variable) is placed at a generated position (binding, argument, nested argument, keyword argument, if arm, list/tuple element, record field, lambda body, block-valued binding) under 0-3 pure wrappers; the function variant must be rejected with a HasEffect diagnostic, the procedure and top-level variants accepted without error.",
      "Templates are fixed shapes combined by the generator (10 positions x 5 effects x wrapper sequences x prefixes); default arguments as effect positions are not generated.",
      "DESIGN.md §3 C22")

check("C05", "metamorphic property test: accepted control program vs the same program with one injected definite static error",
      "A fragment program the checker accepts is mutated at one expression position chosen uniformly among all positions (any nesting depth: function/lambda bodies, default arguments, loop and branch bodies, arguments, list elements, interpolations) by one of 17 definite errors (operators without implementation, wrong arity, unknown keyword, argument of a disjoint class, undefined name/callee, absent attribute); the mutant must yield >= 1 error diagnostic, and for a sample `erg run` must exit non-zero without output.",
      "The error table is restricted to expressions that are errors under every typing of the fragment.",
      "DESIGN.md §3 C05")
check("C03", "property test against an exact reference decision of predicate implication (finite evaluation around the constants)",
      "Pairs of integer refinement types (predicates of depth <= 3 over ==, !=, <, <=, >, >=, and, or, not and constants; interval forms with open/closed ends), the required type drawn independently or derived from the given one by moving constants, are checked as `g(x: P): Q = x`; an acceptance is a violation when some integer satisfies P and not Q. Implication is decided exactly by evaluating both predicates on every integer from 3 below the least to 3 above the greatest constant (all atoms are constant outside).",
      "Soundness direction only (rejections of valid pairs are counted, not judged); one integer variable; the SMT solver of the statement is replaced by exhaustive evaluation, which is exact for this grammar.",
      "DESIGN.md §3 C03")

check("C06", "property test of algebraic laws of the subtype judgement over generated type expressions",
      "Types of nesting depth <= 2 (tower classes, Str, NoneType, Never, Obj, traits, integer/string enums, intervals, immutable containers, unions, intersections); `S <: T` is observed as acceptance of `g(x: S): T = x`. Checked: reflexivity, Never <: T <: Obj, T <: (T or U), (T and U) <: T, enum/interval below the class of its values and the classes above, every pair of the numeric tower, transitivity over chains of documented steps and over random triples.",
      "Type expressions the checker objects to as such (unsupported syntax such as a set of an enum) are discarded and counted; container covariance is not asserted (the statement does not promise it).",
      "DESIGN.md §3 C06")

check("C19", "differential property test over schedules and configurations: repeated builds of generated projects with injected thread start delays and with the parallel feature off",
      "Projects from the C20 generator are compiled by `erg compile main.er` in fresh processes: plainly, twice with pseudo-random start delays of 0-30 ms per analysis thread (hook ERG_VERIF_JITTER in erg_common::spawn, different seed each time) and once by the CLI built without the `parallel` feature (harness/seq); bytes 16.. of main.pyc, the exit status and the sorted multiset of diagnostic lines must be identical across all builds.",
      "Delays are injected at thread start only (not at every join); generated variable numbers in diagnostics are masked before comparison; the delay schedule is a function of the case, so a failure replays.",
      "DESIGN.md §3 C19")

check("C20", "model-based property test: generated import graphs run end-to-end against a reference model of the program's output",
      "Projects of 1-8 modules with generated import graphs (DAGs, diamonds, 2- and longer cycles, self-imports), typed public bindings, top-level reads through annotated bindings and reads inside functions; `erg run main.er` (the working tree's CLI, fresh directory per case) must terminate within 90 s (a timeout is confirmed by a second run), exit 0 and print exactly the predicted multiset of lines (every module's start/end marker once, every value as defined); a falsified annotation of an imported binding must be rejected.",
      "'Analyses each module once' is not observed (no counter hook); execution order of module bodies is not constrained, only multiplicity. Thread schedules are whatever the OS gives (C19 injects jitter).",
      "DESIGN.md §3 C20")

check("C23", "model-based property test: generated move/use scripts over mutable variables against a reference model of the moved set",
      "Straight-line scripts of up to 14 operations over mutable lists and naturals at module top level or inside a procedure body: rebinding, list and tuple construction, passing for a mutable-typed parameter (moves); RefMut / Ref / immutable parameters, print!, procedural method calls (uses that do not move). The checker must report >= 1 MoveError exactly when the model has a use after a move, every MoveError must lie on a line the model marks, and no other error kind may be reported.",
      "Function (non-procedure) scope is not generated (any operation on a mutable object is an effect there); generic parameters, closures capturing a mutable variable and control flow are not generated because the statement leaves their verdict open.",
      "DESIGN.md §3 C23")

check("C24", "property test: injected undefined name with a generator-known text, every diagnostic's location validated against the source",
      "Fragment programs with wild strings get an undefined name injected at a uniformly chosen expression position; every diagnostic must carry lines inside the source and columns inside its line, the undefined-name diagnostic must highlight exactly the name, and rendering each diagnostic (Display) must not panic.",
      "Columns counted in characters; diagnostics without column information are only line-checked.",
      "DESIGN.md §3 C24")

check("C34", "property test against a reference evaluator of inferred types: every top-level binding's inferred type evaluated on its run-time value",
      "Programs of 2-10 top-level bindings (literals, arithmetic, comparisons, list literals, push, concatenation, len, constant indexing, two user functions) are checked in-process; each binding's inferred type (HIR definition signature, the same the `typecheck` mode prints) is evaluated by a membership evaluator (classes, Nat, singleton/enum/interval refinements, List(T, N) element type and length) on the value printed by the compiled program under CPython 3.11; an accepted program must not raise IndexError.",
      "Type shapes the evaluator does not model (e.g. singleton types of list values) are counted, not judged; language-server hover is not queried (it reads the same HIR field); map over lists is not generated.",
      "DESIGN.md §3 C34")

check("C07", "property test / fuzzing of the whole compiler pipeline in crash-isolated workers (generated well-typed and ill-typed programs, mutated corpus)",
      "Fragment programs, the same with 1-3 positions replaced by syntactically valid but ill-typed expressions, and corpus programs cut/spliced at random points (kept if they still parse) are compiled in-process at generated opt_level 0-3 and target 3.7-3.11; a panic, an abort of the worker process (confirmed in a fresh process), a hang or an internal-compiler-error diagnostic is a violation. One signature per panic site.",
      "The recorded crash families (recursion-limit panics in compare.rs / unify.rs, a stack overflow, an unserialisable Ellipsis constant, lower_class_def) are known findings keyed by panic site; the abort signature `abort:signal 6` is coarse (any stack overflow).",
      "DESIGN.md §3 C07")

check("C18", "property test against a reference model: generated constant values vs strict JSON parse of the JSON-target output",
      "Modules of public bindings (private ones interleaved) with initialisers from a value grammar of depth <= 3 (naturals to 2**64-1, negative integers, floats, strings with quotes/backslashes/control/non-ASCII characters, booleans, None, lists, tuples, records, string-keyed dicts, references to earlier bindings, constant sums) are transpiled with the JSON target in-process; the output must parse with serde_json into exactly the object the generator's model predicts.",
      "References are generated at the top level of an initialiser only; modules the transpiler declines with a diagnostic are counted, not judged.",
      "DESIGN.md §3 C18")

check("C33", "property test against a reference model of first-match semantics: generated match expressions run on every value of a sampled domain",
      "`f(x: T) = match x: arms` for T among Int, Nat, Str, Bool, integer/string enums, intervals and `Int or Str`, with 1-5 arms (literals, type-annotated variables, interval patterns, wildcard) in random order, is compiled and called on every sample value; for an accepted program the model must have a matching arm for every value, the run must not raise, and the arm executed must be one whose pattern contains the value.",
      "Rejections (incompleteness of the exhaustiveness check) are counted, not judged; sample domains are small (all enum members, every integer of an interval, representative others).",
      "DESIGN.md §3 C33")

check("C26", "Hypothesis property test (python3-vt) of the runtime classes against the builtin operations on the unwrapped values",
      "Operand pairs for every arithmetic/comparison operator between the Nat, Int, Float, Bool wrappers and plain ints/floats (integers to +-2**70, boundary values, NaN, infinities, signed zeros, subnormals), mutable wrappers with operands of their own kind for the operations their class declares, unary operations, Str and List operations over Unicode text; the result must equal the builtin's (bit-exact floats, same exception type), be an instance of the promised wrapper (Nat+Nat / Nat*Nat stay Nat, Nat op Int and Int op Int are Int, Float op number is Float, Str results are Str) and no Nat may be negative. Failures are shrunk with Hypothesis' own shrinker.",
      "The promised-class table is the one in the property statement, not derived from the .d.er declarations; cross-kind mutable combinations (IntMut with Float, wrapper with a mutable right operand) are outside the generated domain.",
      "DESIGN.md §3 C26", engine="pyhyp")

check("C25", "Hypothesis (Python server) and proptest (Rust client, through the verif hook) round-trip tests of the REPL message framing over chunked streams",
      "Sequences of 1-5 messages with payloads of 0-200 000 bytes (incl. 65534/65535/65536 and multi-byte text) are framed and read back: on the server side through the MessageStream class extracted from the working tree's repl_server.py over a fake socket whose recv/send transfer generated chunk sizes (down to 1 byte), on the client side through MessageStream::send_msg / recv_msg (hook erg::verif_framing) over a reader with generated chunk sizes; every message must be decoded exactly as sent and written exactly in the frame format.",
      "End-to-end histories through DummyVM (the part of the statement about inputs receiving their own results) are not driven: its error paths call process::exit and each session needs a Python subprocess; only the framing layer on both sides is checked.",
      "DESIGN.md §3 C25", engine="pyhyp")

check("C28", "stateful model-based property test: edit histories applied in lock-step to an in-process language server and to a client-side document model",
      "Per document a didOpen and up to 12 didChange notifications (0-3 changes each: inserts, deletes, replaces at UTF-16 positions incl. past-end-of-line and end-of-text, whole-document changes, empty change lists) over text with ASCII, BMP multi-byte and astral characters are dispatched to an in-process els::Server; after every notification VFS.read of the document must equal the model's text, and dispatch must not panic or err.",
      "One server per worker process, a fresh URI per history; \\n line ends only; the model clamps past-EOL columns to EOL as the LSP specification says.",
      "DESIGN.md §3 C28")

check("C15", "round-trip property test (constants through the target interpreter's marshal) plus mutation fuzzing of the .pyc reader",
      "Constants generated by type (naturals of every bit length, 32-bit integers, floats by bit pattern, ASCII / long / non-ASCII / astral strings, booleans, None, nested and very long tuples) are serialised with ValueObj::into_bytes for a generated target and unmarshalled by that interpreter: equal value and type. The .pyc of generated programs must be read back by CodeObj::from_pyc, and the same files truncated, with a byte replaced or a 4-byte field overwritten must yield Ok or Err without a panic, abort or hang.",
      "Structured mutations of valid files (not a coverage-guided byte fuzzer); field-by-field equality of the re-read code object is not compared.",
      "DESIGN.md §3 C15")

NOT_APPLICABLE = {
    "C29": "not built in the time available (nothing is claimed): the technique applies - edit histories against an in-process els server compared with a freshly started one, as described in DESIGN.md section C29 - but the publishDiagnostics path runs on background threads of the server and needs a quiescence protocol that was not finished",
    "C30": "not built in the time available (nothing is claimed): the technique applies - rename requests on generated programs, the WorkspaceEdit applied and the result compiled and run, DESIGN.md section C30",
}

def main():
    props = [json.loads(l)["id"] for l in open(os.path.join(ROOT, "properties.jsonl"))]
    checks = []
    for pid in props:
        if pid not in CHECKS:
            continue
        c = CHECKS[pid]
        checks.append({
            "property_id": pid,
            "quick_cmd": f"./check {pid} --tier quick",
            "thorough_cmd": f"./check {pid} --tier thorough",
            "evidence_file": f"/verif/evidence/{pid}.json",
            "replay_cmd_template": f"./check {pid} --replay {{path}}",
            "engine": c["engine"],
            "level_claimed": {"category": "exploration", "text": c["text"], "design_ref": c["design_ref"]},
            "level_note": c["note"],
            "technique": c["technique"],
        })
    na = []
    for pid in props:
        if pid not in CHECKS:
            na.append({"property_id": pid, "reason": NOT_APPLICABLE.get(pid, "check not built yet in this session (the technique applies; see DESIGN.md §3)")})
    m = {
        "version": 1,
        "setup_cmd": "./setup.sh",
        "hooks": {
            "guard": "--cfg erg_lang_erg_verif",
            "enable": "harness/.cargo/config.toml sets build.rustflags = [\"--cfg\", \"erg_lang_erg_verif\"]; the harness crates depend on /repo's crates by path, so every ./check rebuilds them from the working tree with the cfg on",
            "baseline_off_cmd": "cd /repo && cargo test --workspace --no-fail-fast --offline",
            "source_commits": json.load(open(os.path.join(ROOT, "tools", "hook_commits.json"))) if os.path.exists(os.path.join(ROOT, "tools", "hook_commits.json")) else [],
            "add_only": True,
        },
        "engines": [
            {"name": "vcheck", "path": "harness/core", "serves_properties": [p for p in props if p in CHECKS and CHECKS[p]["engine"] == "vcheck"],
             "kind_free_text": "Rust driver (proptest value trees, seeded by VERIF_SEED) + crash-isolated worker processes + persistent Python exec workers (py/execd.py)"},
            {"name": "vlsp", "path": "harness/lsp", "serves_properties": [p for p in props if p in CHECKS and CHECKS[p]["engine"] == "vlsp"],
             "kind_free_text": "same engine linked against els (language server) with the els feature on"},
            {"name": "pyhyp", "path": "py", "serves_properties": [p for p in props if p in CHECKS and CHECKS[p]["engine"] == "pyhyp"],
             "kind_free_text": "Hypothesis suites run under python3-vt"},
        ],
        "checks": checks,
        "not_applicable": na,
        "notes": "All checks are property-based tests / fuzzers against explicit oracles; see DESIGN.md. Known findings: known_findings.json.",
    }
    json.dump(m, open(os.path.join(ROOT, "MANIFEST.json"), "w"), indent=1)
    print(f"MANIFEST.json: {len(checks)} checks, {len(na)} not_applicable")

if __name__ == "__main__":
    main()
