#!/usr/bin/env python3
"""kf.py <viol-replay-file> <status known|fixed> <short-name> <commit or -> <what...>
Moves a violation replay written by a check to replays/<prop>/<status>-<name>.json and
appends the finding (signature taken from the file) to known_findings.json."""
import json, os, sys
ROOT = os.path.dirname(os.path.dirname(os.path.abspath(__file__)))
f, status, name, commit = sys.argv[1:5]
what = " ".join(sys.argv[5:])
d = json.load(open(f))
prop = d["property"]
rel = f"replays/{prop}/{status}-{name}.json"
json.dump(d, open(os.path.join(ROOT, rel), "w"), indent=1, ensure_ascii=False)
if os.path.abspath(f) != os.path.abspath(os.path.join(ROOT, rel)):
    os.remove(f)
k = json.load(open(os.path.join(ROOT, "known_findings.json")))
e = {"property": prop, "status": status, "signature": d["signature"], "replay": rel}
if status == "fixed":
    e["commit"] = commit
    e["what"] = f"fixed: property={prop} {commit} {what}"
else:
    e["what"] = what
k["findings"].append(e)
json.dump(k, open(os.path.join(ROOT, "known_findings.json"), "w"), indent=2, ensure_ascii=False)
print("added", rel, "sig:", d["signature"])
