#!/bin/bash
# seedrun.sh <ID> <mutant-dir> [check-id ...]   (developer tool, not part of any registered check)
# 1. confirms a seeded change in the scratch worktree /tmp/wt-<ID>: applies, runs the demo
#    (must fail), the repository's test suite (must pass), reverts, runs the demo (must pass)
# 2. runs the given checks (default: <ID>) of a scratch copy of /verif against that worktree
# Output: /tmp/seed/log-<ID>-<mutant>.txt ; nothing in /repo or /verif is touched.
ID=$1; M=$2; shift 2; CHECKS="${@:-$ID}"
WT=/tmp/wt-$ID; HX=/tmp/hx-$ID; NAME=$(basename $M)
LOG=/tmp/seed/log-$ID-$NAME.txt
exec >$LOG 2>&1
set -x
cd $WT && git checkout -q -- . && git checkout -q --detach $(git -C /repo rev-parse HEAD) && git apply $M/patch.diff || { echo "APPLY FAILED"; exit 3; }
export ERG_PATH=$WT/crates/erg_compiler CARGO_NET_OFFLINE=true
if [ -z "$SKIP_CONFIRM" ]; then
  cargo build --offline 2>&1 | tail -2
  bash $M/demo.sh $WT; echo "DEMO_WITH_PATCH rc=$?"
  cargo test --workspace --no-fail-fast --offline 2>&1 | grep -E "^test result|FAILED|failed" | head -20
fi
# checks against the patched worktree
mkdir -p $HX && rsync -a --delete --exclude target --exclude .git /verif/ $HX/verif/
sed -i "s#/repo#$WT#g" $HX/verif/harness/*/Cargo.toml
for c in $CHECKS; do
  ( cd $HX/verif && VERIF_REPO=$WT timeout 3000 ./check $c --tier ${TIER:-quick} 2>&1 | grep -vE "^warning|^\s*(-->|\||=)" | tail -15; echo "CHECK $c rc=${PIPESTATUS[0]}" )
done
cd $WT && git checkout -q -- .
if [ -z "$SKIP_CONFIRM" ]; then
  cargo build --offline 2>&1 | tail -1
  bash $M/demo.sh $WT; echo "DEMO_WITHOUT_PATCH rc=$?"
fi
echo SEEDRUN-DONE
